#!/bin/bash
# mutant_matrix.sh [pairs...]: run registered quick checks against seeded changes on a COPY of the repository
# (VERIF_REPO, default $VP_RUN_REPO) so that /repo stays untouched. Each pair is "<seeded dir>:<check id>".
# Results: one line per pair in seeded_results.txt (in the current /verif copy).
REPO=${VERIF_REPO:-$VP_RUN_REPO}
[ -d "$REPO/go" ] || { echo "no repository copy (VERIF_REPO / VP_RUN_REPO)"; exit 2; }
export VERIF_REPO=$REPO
cd "$(dirname "$0")/.."
[ -x bin/vengine ] || (cd engine && . ../venv.sh && go build -o ../bin/vengine .)
for pair in "$@"; do
  S=${pair%%:*}; ID=${pair##*:}
  (cd $REPO && patch -p1 -s < /verif/seeded/$S/patch.diff) || { echo "$S $ID PATCH-FAILED" >> seeded_results.txt; continue; }
  out=$(./check $ID --tier quick 2>&1 | grep -v "^PASS\|^loaded\|^  \.\.\.\|^    violation" | tail -6)
  if echo "$out" | grep -q "^VIOLATION"; then r=CAUGHT; elif echo "$out" | grep -q "INCONCLUSIVE"; then r=INCONCLUSIVE; else r=MISSED; fi
  echo "$S $ID $r :: $(echo "$out" | grep "^counterexample" | head -2 | cut -c1-200 | tr '\n' ' ')" >> seeded_results.txt
  (cd $REPO && patch -p1 -R -s < /verif/seeded/$S/patch.diff)
done
echo DONE >> seeded_results.txt
