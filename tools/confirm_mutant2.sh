#!/bin/bash
# confirm_mutant2.sh <ID> <C|D>: second-round layout (/tmp/mut2/<ID>/_out/<letter>/{patch.diff,demo_test.go,agent_meta.json}).
set -u
ID=$1; V=$2
WT=${MUTBASE:-/tmp/mut2}/$ID; M=$WT/_out/$V
. /verif/venv.sh
cd $WT || exit 1
git checkout -q -- .
PKGDIR=$(python3 -c "import json;print(json.load(open('$M/agent_meta.json'))['demo_package_dir'])")
DEMO=$M/demo_test.go
T=$WT/$PKGDIR/zz_demo_${ID}${V}_test.go
cp $DEMO $T
PKG=./${PKGDIR#go/}
RUNPAT=$(grep -o "^func Test[A-Za-z0-9_]*" $DEMO | sed 's/func //' | paste -sd'|')
echo "== demo on clean tree (must pass): $RUNPAT"
(cd $WT/go && go test -count=1 -p 4 -run "$RUNPAT" $PKG 2>&1 | tail -3)
git apply $M/patch.diff || { echo "patch does not apply"; rm -f $T; exit 1; }
echo "== demo with mutant (must fail)"
(cd $WT/go && go test -count=1 -p 4 -run "$RUNPAT" $PKG 2>&1 | grep -v "^    " | tail -5)
rm $T
echo "== existing tests of touched packages with mutant (must pass)"
PKGS=$(git diff --name-only | xargs -n1 dirname | sort -u | sed 's#^go/#./#')
(cd $WT/go && go test -count=1 -p 4 $PKGS 2>&1 | tail -6)
git checkout -q -- .
D=/verif/seeded/${ID}_$V; mkdir -p $D
cp $M/patch.diff $D/patch.diff; cp $DEMO $D/demo_test.go; cp $M/agent_meta.json $D/agent_meta.json
echo "stored $D"
