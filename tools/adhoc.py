#!/usr/bin/env python3
# adhoc.py <ID> <unit index> <harness[:k=v;k=v]> ... [-- extra engine flags]: run the engine on one unit of a check
# with ad-hoc harness instances (development aid; nothing is registered or written to evidence/).
import json, os, subprocess, sys
V = os.path.dirname(os.path.dirname(os.path.abspath(__file__)))
spec = json.load(open(os.path.join(V, "checks.json")))[sys.argv[1]]
unit = spec["units"][int(sys.argv[2])]
args = sys.argv[3:]
extra = []
if "--" in args:
    i = args.index("--"); extra = args[i + 1:]; args = args[:i]
repo = os.path.join(os.environ.get("VERIF_REPO", "/repo"), "go")
hd = os.path.join(V, "harness", unit["dir"])
files = unit.get("files") or sorted(f for f in os.listdir(hd) if f.endswith(".go"))
cmd = [os.path.join(V, "bin", "vengine"), "-dir", repo, "-pkg", unit["pkg"], "-symx", os.path.join(V, "symx"),
       "-out", "/dev/null", "-workers", "16", "-solver", unit.get("solver", "z3"), "-timeout", "30000", "-samples", "0"]
pkgdir = os.path.join(repo, unit["pkg"][2:])
for f in files:
    cmd += ["-ov", os.path.join(pkgdir, f) + "=" + os.path.join(hd, f)]
for f in unit.get("extra_files") or []:
    cmd += ["-ov", os.path.join(pkgdir, os.path.basename(f)) + "=" + os.path.join(V, "harness", f)]
if unit.get("pregen"):
    pg = unit["pregen"]
    outp = os.path.join("/tmp", "adhoc_" + pg["file"])
    subprocess.run(["python3", os.path.join(V, pg["cmd"]), repo, outp], check=True)
    cmd += ["-ov", os.path.join(pkgdir, pg["file"]) + "=" + outp]
for a, b in (unit.get("redirects") or {}).items():
    cmd += ["-redirect", a + "=" + b]
for a in unit.get("init_allow") or []:
    cmd += ["-init-allow", a]
for h in args:
    cmd += ["-harness", h]
env = dict(os.environ, GOFLAGS="-mod=mod", GOPROXY="off", GOSUMDB="off", GOTOOLCHAIN="local",
           PATH="/opt/veriftools/go1.26.8/bin:" + os.environ["PATH"])
sys.exit(subprocess.run(cmd + extra, env=env).returncode)
