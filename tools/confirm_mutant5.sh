#!/bin/bash
# confirm_mutant5.sh <NAME> (e.g. C07_A): fifth-round layout /tmp/mut5/<NAME>/_out/{patch.diff,demo_test.go,agent_meta.json}.
# Re-verifies a sub-agent's seeded change in its scratch worktree (demo passes clean, fails patched, touched packages' tests
# pass patched) and stores it under /verif/seeded/<NAME>.
set -u
N=$1
WT=${MUTBASE:-/tmp/mut5}/$N; M=$WT/_out
. /verif/venv.sh
cd $WT || exit 1
git checkout -q -- .
git checkout -q --detach $(git -C /repo rev-parse HEAD) 2>/dev/null   # follow fix: commits in /repo
PKGDIR=$(python3 -c "import json;print(json.load(open('$M/agent_meta.json'))['demo_package_dir'])")
DEMO=$M/demo_test.go
T=$WT/$PKGDIR/zz_demo_${N}_test.go
cp $DEMO $T
PKG=./${PKGDIR#go/}
TAGS=""; grep -q "go:build verif" $DEMO && TAGS="-tags verif"
RUNPAT=$(grep -o "^func Test[A-Za-z0-9_]*" $DEMO | sed 's/func //' | paste -sd'|')
echo "== demo on clean tree (must pass): $RUNPAT $TAGS"
(cd $WT/go && go test -count=1 -p 4 $TAGS -run "$RUNPAT" $PKG 2>&1 | tail -3)
git apply $M/patch.diff || { echo "patch does not apply"; rm -f $T; exit 1; }
echo "== demo with mutant (must fail)"
(cd $WT/go && go test -count=1 -p 4 $TAGS -run "$RUNPAT" $PKG 2>&1 | grep -v "^    " | tail -5)
rm $T
echo "== existing tests of touched packages with mutant (must pass)"
PKGS=$(git diff --name-only | xargs -n1 dirname | sort -u | sed 's#^go/#./#')
(cd $WT/go && go test -count=1 -p 4 $PKGS 2>&1 | tail -6)
git checkout -q -- .
D=/verif/seeded/$N; mkdir -p $D
cp $M/patch.diff $D/patch.diff; cp $DEMO $D/demo_test.go; cp $M/agent_meta.json $D/agent_meta.json
echo "stored $D"
