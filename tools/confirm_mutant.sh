#!/bin/bash
# confirm_mutant.sh <ID> <A|B>: re-verify a sub-agent's seeded change in its scratch worktree and store it under /verif/seeded.
set -u
ID=$1; V=$2
WT=/tmp/mut/$ID; M=$WT/_mutant/$V
. /verif/venv.sh
cd $WT || exit 1
git checkout -q -- . 
PKGDIR=$(python3 -c "import json;print(json.load(open('$M/meta.json'))['demo_package_dir'])")
DEMO=$(ls $M/*_test.go | head -1)
cp $DEMO $WT/$PKGDIR/zz_demo_${ID}${V}_test.go
PKG=./${PKGDIR#go/}
echo "== demo on clean tree (must pass)"
(cd $WT/go && go test -count=1 -p 4 -run 'Mutant|Demo' $PKG 2>&1 | tail -3); R0=${PIPESTATUS[0]}
git apply $M/patch.diff || { echo "patch does not apply"; exit 1; }
echo "== demo with mutant (must fail)"
(cd $WT/go && go test -count=1 -p 4 -run 'Mutant|Demo' $PKG 2>&1 | tail -5)
rm $WT/$PKGDIR/zz_demo_${ID}${V}_test.go
echo "== existing tests of touched packages with mutant (must pass)"
PKGS=$(git diff --name-only | xargs -n1 dirname | sort -u | sed 's#^go/#./#')
(cd $WT/go && go test -count=1 -p 4 $PKGS 2>&1 | tail -6)
git checkout -q -- .
D=/verif/seeded/${ID}_$V; mkdir -p $D
cp $M/patch.diff $D/patch.diff; cp $DEMO $D/demo_test.go; cp $M/meta.json $D/agent_meta.json
echo "stored $D"
