#!/usr/bin/env python3
"""record_matrix.py <seeded_results.txt>...: merges mutant-matrix result files (tools/mutant_matrix.sh) into
tools/seeded_detection.json; later files win. Then run tools/seed_meta.py to refresh seeded/*/meta.json."""
import json, os, re, sys
V = os.path.dirname(os.path.dirname(os.path.abspath(__file__)))
p = os.path.join(V, "tools", "seeded_detection.json")
d = json.load(open(p))
for f in sys.argv[1:]:
    for line in open(f):
        m = re.match(r"(\S+) (\S+) (CAUGHT|MISSED|INCONCLUSIVE|PATCH-FAILED) :: ?(.*)", line.strip())
        if not m:
            continue
        seed, chk, res, rest = m.groups()
        by = ""
        mm = re.search(r"harness=(\S+) assertion=(['\"])(.*?)\2 native", rest)
        if mm:
            by = "%s: '%s'" % (mm.group(1), mm.group(3)[:160])
        e = d.get(seed, {})
        # keep an earlier "caught" by another check when this line is a miss for a different check
        if e.get("result") == "caught" and res != "CAUGHT":
            continue
        d[seed] = {"check": chk, "tier": "quick", "result": res.lower().replace("patch-failed", "patch does not apply"), "by": by}
json.dump(d, open(p, "w"), indent=1)
print(len(d), "entries")
