#!/usr/bin/env python3
"""Regenerates /verif/MANIFEST.json from checks.json + tools/manifest_meta.json."""
import json, os
V = os.path.dirname(os.path.dirname(os.path.abspath(__file__)))
checks = json.load(open(os.path.join(V, "checks.json")))
meta = json.load(open(os.path.join(V, "tools", "manifest_meta.json")))
import subprocess
HOOK_COMMIT = "5e734db86fb2c1c452dc85475e7f12fe8941eb7e"
m = {
 "version": 1,
 "setup_cmd": "cd /verif/engine && GOFLAGS=-mod=mod GOPROXY=off GOSUMDB=off GOTOOLCHAIN=local PATH=/opt/veriftools/go1.26.8/bin:$PATH go build -o /verif/bin/vengine .",
 "hooks": {
  "guard": "verif",
  "enable": "harnesses are injected into the package under test with go/packages Overlay (symbolic run) and go test -overlay (native replay); the only hook in /repo is the crash point in front of every durable write of the node databases (storage/mkvs/db/api.VerifCrashPoint, an empty function unless built with -tags verif); the C07 check's native replays run go test -tags verif, the symbolic run does not need the tag (the crash happens in the harness model of Badger)",
  "baseline_off_cmd": "for m in $(cat /w/out/gomods.txt); do MF=$(cd /repo/$m && . /w/out/goenv.sh && gomodflag); (cd /repo/$m && go test $MF -json -vet=off -count=1 -timeout 25m ./...); done",
  "source_commits": [HOOK_COMMIT],
  "add_only": True,
 },
 "engines": [{"name": "vengine", "path": "/verif/engine", "serves_properties": sorted(checks),
   "kind_free_text": "path-exploring symbolic executor over go/ssa (SSA rebuilt from /repo's working tree on every run); scalars are SMT terms (bit-vectors, mathematical integers, uninterpreted hash functions), every feasible branch alternative is explored, assertions are discharged by z3; counterexamples are replayed natively with go test -overlay before being reported"}],
 "checks": [],
 "not_applicable": meta["not_applicable"],
 "notes": meta.get("notes", ""),
}
for pid in sorted(checks):
    mm = meta["checks"][pid]
    m["checks"].append({
        "property_id": pid,
        "quick_cmd": "./check %s --tier quick" % pid,
        "thorough_cmd": "./check %s --tier thorough" % pid,
        "evidence_file": "/verif/evidence/%s.json" % pid,
        "replay_cmd_template": "./check %s --replay {path}" % pid,
        "engine": "vengine",
        "technique": mm["technique"],
        "level_claimed": {"category": "model_checking", "text": mm["text"], "design_ref": "DESIGN.md section 3, " + pid},
        "level_note": mm["note"],
    })
claimed = set(checks)
m["not_applicable"] = [n for n in m["not_applicable"] if n["property_id"] not in claimed]
json.dump(m, open(os.path.join(V, "MANIFEST.json"), "w"), indent=1)
print("MANIFEST.json: %d checks, %d not applicable" % (len(m["checks"]), len(m["not_applicable"])))
