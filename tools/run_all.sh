#!/bin/bash
# run_all.sh [tier] [ids...]: run the registered checks one after the other (default: all, quick) and print one line each.
# With VP_RUN_REPO set (vp run --with-repo) the checks run against that snapshot of /repo instead of /repo itself.
TIER=${1:-quick}; shift
[ -n "$VP_RUN_REPO" ] && export VERIF_REPO=$VP_RUN_REPO
cd "$(dirname "$0")/.."
[ -x bin/vengine ] || (cd engine && . ../venv.sh && go build -o ../bin/vengine .)
IDS=${@:-$(python3 -c "import json;print(' '.join(sorted(json.load(open('checks.json')))))")}
for id in $IDS; do
  s=$(date +%s)
  out=$(timeout ${CHECK_TIMEOUT:-3600} ./check $id --tier $TIER 2>&1); rc=$?
  echo "$id rc=$rc $(( $(date +%s) - s ))s :: $(echo "$out" | grep -v '^PASS\|^loaded\|^  \.\.\.\|^    violation' | tail -4 | cut -c1-300 | tr '\n' '|')" | tee -a run_all_results.txt
done
echo DONE | tee -a run_all_results.txt
