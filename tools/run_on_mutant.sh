#!/bin/bash
# run_on_mutant.sh <seed-dir-name> <check-id> [tier]: apply a seeded change to /repo, run the check, undo the change.
S=/verif/seeded/$1; ID=$2; TIER=${3:-quick}
git -C /repo apply $S/patch.diff || exit 1
cd /verif && ./check $ID --tier $TIER 2>&1 | grep -v "^    violation" | tail -${TAILN:-8}
git -C /repo checkout -- .
git -C /repo status --short | head -3
