#!/usr/bin/env python3
"""Writes /verif/seeded/<x>/meta.json from the sub-agent's meta and my own confirmation / detection records."""
import json, os, sys
V = os.path.dirname(os.path.dirname(os.path.abspath(__file__)))
results = json.load(open(os.path.join(V, "tools", "seeded_detection.json")))
for d in sorted(os.listdir(os.path.join(V, "seeded"))):
    p = os.path.join(V, "seeded", d)
    am = json.load(open(os.path.join(p, "agent_meta.json")))
    r = results.get(d, {})
    meta = {
        "breaks_property": am.get("property", d.split("_")[0]),
        "summary": am.get("summary"),
        "needs_to_manifest": am.get("needs_to_manifest"),
        "demo": {"file": "demo_test.go", "package_dir": am.get("demo_package_dir"), "run": am.get("demo_run")},
        "origin": "written by an independent sub-agent that saw only the property text and a scratch worktree of /repo (nothing from /verif)",
        "confirmed_by_me": "tools/confirm_mutant.sh (rounds 1-4) / tools/confirm_mutant5.sh (round 5) in a scratch worktree: demo passes on the clean tree, fails with the patch applied; the existing tests of the touched packages pass with the patch applied",
        "detection": r,
    }
    json.dump(meta, open(os.path.join(p, "meta.json"), "w"), indent=1)
print("ok")
