package pathbadger

// C07: the node database survives a crash at any point of a write operation.
// History: version 1 committed and finalized. Then one operation - commit of
// version 2, its finalisation, or (after version 2 was finalized) pruning of
// version 1 - during which the process dies right before a symbolic one of its
// durable writes (batch flushes and metadata commits; each is atomic in Badger).
// The database is reopened on what had been written. Then: every previously
// finalized version is completely readable, the interrupted operation can be
// repeated to completion, and the final state is that of an uninterrupted run.
//
// Under the engine the crash happens in the Badger model (the n-th flush / commit
// panics before taking effect, the store is kept for the reopen); natively the
// database is on disk in a temporary directory, the crash is the verif-tagged
// crash point in front of every durable write of the back end, and the reopen is a
// real reopen of the directory.

import (
	"context"
	"errors"
	"os"

	"github.com/oasisprotocol/oasis-core/go/common"
	symx "github.com/oasisprotocol/oasis-core/go/internal/verifsymx"
	"github.com/oasisprotocol/oasis-core/go/storage/mkvs"
	"github.com/oasisprotocol/oasis-core/go/storage/mkvs/db/api"
	"github.com/oasisprotocol/oasis-core/go/storage/mkvs/node"
)

func c07Arm(n int) {
	api.VerifCrashAt = n
	api.VerifCrashReset()
	vbCrashAt, vbCommits, vbCrashed = n, 0, false
}

// c07Run runs op; a simulated crash ends it (crashed = true).
func c07Run(op func() error) (crashed bool, err error) {
	defer func() {
		if r := recover(); r != nil {
			if !(vbCrashed || api.VerifCrashed) {
				panic(r)
			}
			crashed = true
		}
		c07Arm(0)
	}()
	err = op()
	return
}

func VerifC07CrashPath() {
	ctx := context.Background()
	var ns common.Namespace
	cfg := &api.Config{Namespace: ns, NoFsync: true, MaxCacheSize: 16 * 1024 * 1024}
	if symx.Symbolic() {
		vbDisk = &vbStore{}
		cfg.MemoryOnly = true
	} else {
		dir, err := os.MkdirTemp("", "verif-c07")
		symx.Assert(err == nil, "MkdirTemp failed")
		defer os.RemoveAll(dir)
		cfg.DB = dir
	}
	c07Arm(0)
	db, err := New(cfg)
	symx.Assert(err == nil, "opening the node database failed")

	// version 1: one or two symbolic entries, finalized
	k := symx.Cfg("k", 2)
	var c1 []c06KV
	t := mkvs.New(nil, db, node.RootTypeState)
	for i := 0; i < k; i++ {
		key, val := symx.Bytes(symx.N("key", i), 1), symx.Bytes(symx.N("val", i), 1)
		symx.Assert(t.Insert(ctx, key, val) == nil, "Insert failed")
		c1 = c06Set(c1, key, val)
	}
	_, h1, err := t.Commit(ctx, ns, 1)
	symx.Assert(err == nil, "Commit of version 1 failed")
	r1 := node.Root{Namespace: ns, Version: 1, Type: node.RootTypeState, Hash: h1}
	symx.Assert(db.Finalize([]node.Root{r1}) == nil, "Finalize of version 1 failed")

	// the batch of version 2
	opKey, opVal, opRemove := symx.Bytes("opKey", 1), symx.Bytes("opVal", 1), symx.Bool("opRemove")
	c2 := append([]c06KV{}, c1...)
	if opRemove {
		c2 = c06Del(c2, opKey)
	} else {
		c2 = c06Set(c2, opKey, opVal)
	}
	// cfg fresh2=1: version 2 is not derived from version 1's root but built from an empty tree (the way every
	// IO root is), so that the finalized root of version 1 has no derived root
	fresh2 := symx.Cfg("fresh2", 0) == 1
	commit2 := func(d api.NodeDB) (node.Root, error) {
		var t2 mkvs.Tree
		if fresh2 {
			t2 = mkvs.New(nil, d, node.RootTypeState)
			for _, e := range c1 {
				symx.Assert(t2.Insert(ctx, e.k, e.v) == nil, "Insert failed")
			}
		} else {
			t2 = mkvs.NewWithRoot(nil, d, r1)
		}
		defer t2.Close()
		var err error
		if opRemove {
			err = t2.Remove(ctx, opKey)
		} else {
			err = t2.Insert(ctx, opKey, opVal)
		}
		symx.Assert(err == nil, "tree operation failed")
		_, h2, err := t2.Commit(ctx, ns, 2)
		return node.Root{Namespace: ns, Version: 2, Type: node.RootTypeState, Hash: h2}, err
	}

	// which operation is interrupted: 0 commit of version 2, 1 its finalisation, 2 pruning of version 1
	which := symx.Cfg("op", 0)
	crashAt := 1 + symx.Choose("crashBeforeWrite", symx.Cfg("writes", 4))
	var r2 node.Root
	if which >= 1 {
		r2, err = commit2(db)
		symx.Assert(err == nil, "Commit of version 2 failed")
	}
	if which >= 2 {
		symx.Assert(db.Finalize([]node.Root{r2}) == nil, "Finalize of version 2 failed")
	}
	if symx.Cfg("sibling", 0) == 1 {
		// another candidate root of version 2 was committed before the interrupted operation and is never finalized
		ts := mkvs.NewWithRoot(nil, db, r1)
		symx.Assert(ts.Insert(ctx, symx.Bytes("sibKey", 1), symx.Bytes("sibVal", 1)) == nil, "Insert failed")
		_, _, err := ts.Commit(ctx, ns, 2)
		symx.Assert(err == nil, "Commit of the competing root failed")
		ts.Close()
	}
	c07Arm(crashAt)
	crashed, opErr := c07Run(func() error {
		switch which {
		case 0:
			var err error
			r2, err = commit2(db)
			return err
		case 1:
			return db.Finalize([]node.Root{r2})
		default:
			return db.Prune(1)
		}
	})
	if !crashed {
		symx.Assert(opErr == nil, "the operation failed without a crash")
		symx.Cover("no-crash")
	} else {
		symx.Cover("crashed")
	}

	// reopen on what was durably written
	db.Close()
	db, err = New(cfg)
	symx.Assert(err == nil, "the node database does not open after a crash")
	defer db.Close()
	probe := symx.Bytes("probe", 1)

	// every previously finalized version is intact (the version being pruned is the subject of the interrupted operation)
	if which <= 1 {
		c06CheckRoot(ctx, db, r1, c1, probe, "after the crash (version 1)")
	}
	if which == 2 {
		c06CheckRoot(ctx, db, r2, c2, probe, "after the crash (version 2)")
	}

	// the interrupted operation can be repeated to completion, with the outcome of an uninterrupted run
	switch which {
	case 0:
		again, err := commit2(db)
		symx.Assert(err == nil, "the interrupted commit cannot be repeated")
		r2 = again
		symx.Assert(db.Finalize([]node.Root{r2}) == nil, "the version committed after the crash cannot be finalized")
	case 1:
		err := db.Finalize([]node.Root{r2})
		symx.Assert(err == nil || errors.Is(err, api.ErrAlreadyFinalized), "the interrupted finalisation can neither be repeated nor has it taken effect")
	default:
		err := db.Prune(1)
		symx.Assert(err == nil || errors.Is(err, api.ErrNotEarliest), "the interrupted pruning can neither be repeated nor has it taken effect")
		symx.Assert(db.GetEarliestVersion() == 2, "earliest version wrong after the repeated pruning")
		if r1.Hash != r2.Hash {
			symx.Assert(!db.HasRoot(r1), "pruned root still present after the repeated pruning")
		}
	}
	if which <= 1 {
		c06CheckRoot(ctx, db, r1, c1, probe, "after repeating the operation (version 1)")
	}
	symx.Assert(db.HasRoot(r2), "version 2 not present after the operation was repeated")
	c06CheckRoot(ctx, db, r2, c2, probe, "after repeating the operation (version 2)")
	// the outcome of an uninterrupted run includes the write log of the transition (what storage sync serves)
	if which <= 1 && r1.Hash != r2.Hash && !fresh2 {
		it, err := db.GetWriteLog(ctx, r1, r2)
		symx.Assert(err == nil, "after repeating the operation the write log of the committed version is missing")
		replica := mkvs.NewWithRoot(nil, db, r1)
		symx.Assert(replica.ApplyWriteLog(ctx, it) == nil, "applying the write log failed")
		_, got, err := replica.Commit(ctx, ns, 2, mkvs.NoPersist())
		symx.Assert(err == nil && got == r2.Hash, "after repeating the operation the write log does not lead to the committed root")
		replica.Close()
		symx.Cover("writelog")
	}
	symx.Cover("end")
}
