package api

// C13 (apply): the real RootCache.Apply - what a storage node runs on a received
// write log - persists the result only if it hashes to the announced root: for a
// symbolic honest transition R1 -> R2 and a received log that is the honest one,
// empty, truncated, extended or altered, Apply returns nil only if the resulting
// contents are the announced ones, and after a failed Apply the announced root is
// not in the node database.

import (
	"bytes"
	"context"

	"github.com/oasisprotocol/oasis-core/go/common"
	symx "github.com/oasisprotocol/oasis-core/go/internal/verifsymx"
	"github.com/oasisprotocol/oasis-core/go/storage/mkvs"
	"github.com/oasisprotocol/oasis-core/go/storage/mkvs/node"
	"github.com/oasisprotocol/oasis-core/go/storage/mkvs/writelog"
)

func VerifC13Apply() {
	ctx := context.Background()
	var ns common.Namespace
	d := newVMemDB()
	t := mkvs.New(nil, d, node.RootTypeState)
	// version 1: one symbolic entry; version 2: a batch of n operations
	n := symx.Cfg("n", 2)
	type kv struct{ k, v []byte }
	var before, after []kv
	set := func(m []kv, k, v []byte) []kv {
		for i := range m {
			if bytes.Equal(m[i].k, k) {
				m[i].v = v
				return m
			}
		}
		return append(m, kv{k, v})
	}
	del := func(m []kv, k []byte) []kv {
		for i := range m {
			if bytes.Equal(m[i].k, k) {
				return append(m[:i:i], m[i+1:]...)
			}
		}
		return m
	}
	k0, v0 := symx.Bytes("key0", 1), symx.Bytes("val0", 1)
	symx.Assert(t.Insert(ctx, k0, v0) == nil, "Insert failed")
	before = set(before, k0, v0)
	_, h1, err := t.Commit(ctx, ns, 1)
	symx.Assert(err == nil, "Commit failed")
	r1 := node.Root{Namespace: ns, Version: 1, Type: node.RootTypeState, Hash: h1}
	after = append(after, before...)
	for i := 1; i <= n; i++ {
		k := symx.Bytes(symx.N("key", i), 1)
		if symx.Bool(symx.N("remove", i)) {
			symx.Assert(t.Remove(ctx, k) == nil, "Remove failed")
			after = del(after, k)
		} else {
			v := symx.Bytes(symx.N("val", i), 1)
			symx.Assert(t.Insert(ctx, k, v) == nil, "Insert failed")
			after = set(after, k, v)
		}
	}
	log, h2, err := t.Commit(ctx, ns, 2, mkvs.NoPersist())
	symx.Assert(err == nil, "Commit failed")
	r2 := node.Root{Namespace: ns, Version: 2, Type: node.RootTypeState, Hash: h2}
	symx.Assert(!d.HasRoot(r2), "unpersisted root present")

	// what the node receives
	recv := append(writelog.WriteLog{}, log...)
	fault := symx.Choose("fault", 5)
	switch fault {
	case 0: // honest
	case 1: // everything dropped
		recv = nil
	case 2: // last entry dropped
		symx.Assume(len(recv) > 0)
		recv = recv[:len(recv)-1]
	case 3: // an extra entry
		recv = append(recv, writelog.LogEntry{Key: symx.Bytes("extraKey", 1), Value: symx.Bytes("extraVal", 1)})
	case 4: // one value altered / insertion turned into removal
		symx.Assume(len(recv) > 0)
		k := symx.Choose("alterAt", len(recv))
		if recv[k].Value == nil {
			recv[k].Value = symx.Bytes("alterVal", 1)
		} else {
			recv[k].Value = nil
		}
	}
	// contents the received log produces from version 1
	got := append([]kv{}, before...)
	for _, e := range recv {
		if e.Value == nil {
			got = del(got, e.Key)
		} else {
			got = set(got, e.Key, e.Value)
		}
	}
	same := len(got) == len(after)
	for _, a := range after {
		found := false
		for _, g := range got {
			if bytes.Equal(a.k, g.k) && bytes.Equal(a.v, g.v) {
				found = true
			}
		}
		same = same && found
	}

	rc, err := NewRootCache(d)
	symx.Assert(err == nil, "NewRootCache failed")
	_, err = rc.Apply(ctx, r1, r2, recv)
	if err == nil {
		symx.Cover("applied")
		symx.Assert(same, "a write log that does not produce the announced state was applied without error")
		symx.Assert(d.HasRoot(r2), "Apply succeeded but the announced root is not in the database")
	} else {
		symx.Cover("rejected")
		symx.Assert(!same, "a write log producing the announced state was rejected")
		symx.Assert(!d.HasRoot(r2), "a failed Apply left the announced root in the database")
	}
	// an announced root that does not follow the old one is refused
	bad := r2
	bad.Version = 1 + uint64(symx.Choose("badVersion", 4))
	if bad.Version != 2 && bad.Version != 1 {
		_, err = rc.Apply(ctx, r1, bad, recv)
		symx.Assert(err != nil, "a root that does not follow the current one was accepted")
	}
	symx.Cover("end")
}
