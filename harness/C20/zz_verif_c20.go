package txpool

// C20 harness: the real mainQueue (mainQueueScheduler, the three heaps and
// container/heap) driven by a symbolic operation script through its own API
// (Add, Schedule, ScheduleExtra, HandleTxsUsed, Drain, All), compared after
// every step against a reference pool written from the property text.

import (
	"math"

	"github.com/oasisprotocol/oasis-core/go/common/crypto/hash"
	symx "github.com/oasisprotocol/oasis-core/go/internal/verifsymx"
	"github.com/oasisprotocol/oasis-core/go/runtime/host/protocol"
)

type c20Tx struct {
	id     int
	sender int
	seq    uint64
	prio   uint64
	meta   *TxQueueMeta
	live   bool
}

type c20Ref struct {
	capacity int
	txs      []*c20Tx   // every transaction ever offered
	hw       [2]uint64  // per sender: current sequence number (high-water mark)
	hasLast  [2]bool    // per sender: something scheduled in this pass
	last     [2]uint64  // per sender: last scheduled sequence in this pass
	inPass   map[int]bool
}

var c20Senders = [2]string{"a", "b"}

func (r *c20Ref) liveCount() int {
	n := 0
	for _, t := range r.txs {
		if t.live {
			n++
		}
	}
	return n
}

func (r *c20Ref) dropBelow(sender int) {
	for _, t := range r.txs {
		if t.live && t.sender == sender && t.seq < r.hw[sender] {
			t.live = false
		}
	}
}

func (r *c20Ref) byMeta(m *TxQueueMeta) *c20Tx {
	for _, t := range r.txs {
		if t.meta == m {
			return t
		}
	}
	return nil
}

// checkContents: the implementation holds exactly the reference's live set.
func (r *c20Ref) checkContents(q *mainQueue) {
	all := q.All()
	symx.Assert(len(all) == r.liveCount(), "pool size differs from reference")
	symx.Assert(len(all) <= r.capacity, "pool exceeds capacity")
	symx.Assert(q.Size() == len(all), "Size() != len(All())")
	for _, m := range all {
		t := r.byMeta(m)
		symx.Assert(t != nil && t.live, "pool holds a transaction the reference does not")
	}
}

// expected returns the next schedulable sequence of a sender in this pass.
// must=false means the property does not determine whether the sender may
// continue in this pass (its queue was forwarded past the pass position).
func (r *c20Ref) expected(sender int) (seq uint64, ok bool, must bool) {
	if r.hasLast[sender] {
		if r.last[sender] == math.MaxUint64 {
			return 0, false, true
		}
		e := r.last[sender] + 1
		return e, true, e >= r.hw[sender]
	}
	return r.hw[sender], true, true
}

func (r *c20Ref) candidate(sender int) (*c20Tx, bool) {
	e, ok, must := r.expected(sender)
	if !ok {
		return nil, false
	}
	for _, t := range r.txs {
		if t.live && t.sender == sender && t.seq == e {
			return t, must
		}
	}
	return nil, false
}

// checkSchedule validates one batch returned by the implementation.
func (r *c20Ref) checkSchedule(batch []*TxQueueMeta, limit int) {
	symx.Assert(len(batch) <= limit, "batch longer than limit")
	for _, m := range batch {
		t := r.byMeta(m)
		symx.Assert(t != nil && t.live, "scheduled a transaction that is not in the pool")
		symx.Assert(!r.inPass[t.id], "transaction scheduled twice in one pass")
		c, _ := r.candidate(t.sender)
		symx.Assert(c == t, "scheduled out of sender sequence order")
		for s := 0; s < 2; s++ {
			if o, must := r.candidate(s); o != nil && must {
				symx.Assert(o.prio <= t.prio, "scheduled a transaction while a higher-priority one was ready")
			}
		}
		r.inPass[t.id] = true
		r.hasLast[t.sender] = true
		r.last[t.sender] = t.seq
	}
	if len(batch) < limit && len(batch) < maxBatchSize {
		for s := 0; s < 2; s++ {
			o, must := r.candidate(s)
			symx.Assert(o == nil || !must, "schedule stopped although a ready transaction exists")
		}
	}
}

// VerifC20Script runs n symbolic operations.
func VerifC20Script() {
	n := symx.Cfg("n", 3)
	capacity := symx.Cfg("cap", 0) // cfg cap fixes the capacity; otherwise symbolic in 1..maxcap
	if capacity == 0 {
		capacity = 1 + symx.Choose("cap", symx.Cfg("maxcap", 3))
	}
	q := newMainQueue(capacity)
	r := &c20Ref{capacity: capacity, inPass: map[int]bool{}}
	for i := 0; i < n; i++ {
		var op int
		if script := symx.Cfg("ops", -1); script >= 0 {
			// concrete operation kinds: decimal digits of cfg ops, first op leftmost
			d := script
			for k := n - 1; k > i; k-- {
				d /= 10
			}
			op = d % 10
		} else {
			op = symx.Choose(symx.N("op", i), 5)
		}
		switch op {
		case 0: // Add
			// cfg senders: decimal digits, one per step (1 = sender a, 2 = sender b, 0 / absent = symbolic)
			sender := -1
			if sd := symx.Cfg("senders", -1); sd >= 0 {
				d := sd
				for k := n - 1; k > i; k-- {
					d /= 10
				}
				sender = d%10 - 1
			}
			if sender < 0 || sender > 1 {
				sender = symx.Choose(symx.N("sender", i), 2)
			}
			seq := symx.Uint64(symx.N("seq", i))
			prio := symx.Uint64(symx.N("prio", i))
			stateSeq := symx.Uint64(symx.N("stateseq", i))
			symx.Assume(stateSeq >= r.hw[sender]) // account sequence numbers never go back
			var h hash.Hash
			h[0] = byte(i + 1)
			meta := &TxQueueMeta{raw: []byte{byte(i)}, hash: h}
			t := &c20Tx{id: i, sender: sender, seq: seq, prio: prio, meta: meta}
			r.txs = append(r.txs, t)
			err := q.Add(meta, &protocol.CheckTxMetadata{Sender: []byte(c20Senders[sender]), SenderSeq: seq, SenderStateSeq: stateSeq, Priority: prio})
			// reference
			r.hw[sender] = stateSeq
			r.dropBelow(sender)
			var old *c20Tx
			for _, o := range r.txs {
				if o != t && o.live && o.sender == sender && o.seq == seq {
					old = o
				}
			}
			switch {
			case seq < r.hw[sender]:
				symx.Assert(err != nil, "expired transaction accepted")
			case old != nil && old.prio >= prio:
				symx.Assert(err != nil, "same-sequence replacement accepted without strictly higher priority")
			case old != nil:
				symx.Assert(err == nil, "valid replacement rejected")
				old.live = false
				t.live = true
			default:
				t.live = true
				if r.liveCount() > r.capacity {
					// exactly one minimum-priority transaction must have been evicted
					var gone *c20Tx
					cnt := 0
					for _, m := range r.txs {
						if !m.live {
							continue
						}
						if _, ok := q.Get(m.meta.hash); !ok {
							gone = m
							cnt++
						}
					}
					symx.Assert(cnt == 1, "capacity overflow did not evict exactly one transaction")
					for _, m := range r.txs {
						if m.live {
							symx.Assert(gone.prio <= m.prio, "evicted transaction is not of lowest priority")
						}
					}
					gone.live = false
					symx.Assert((err != nil) == (gone == t), "Add error does not match eviction of the new transaction")
				} else {
					symx.Assert(err == nil, "valid transaction rejected")
				}
			}
			symx.Cover("add")
		case 1: // Schedule (new pass)
			limit := 1 + symx.Choose(symx.N("limit", i), 3)
			r.hasLast = [2]bool{}
			r.inPass = map[int]bool{}
			batch := q.Schedule(limit)
			r.checkSchedule(batch, limit)
			symx.Cover("schedule")
		case 2: // ScheduleExtra (same pass)
			limit := 1 + symx.Choose(symx.N("limit", i), 3)
			batch := q.ScheduleExtra(limit)
			r.checkSchedule(batch, limit)
			symx.Cover("schedule-extra")
		case 3: // HandleTxsUsed
			if len(r.txs) == 0 {
				symx.Assume(false)
			}
			k := symx.Choose(symx.N("used", i), len(r.txs))
			t := r.txs[k]
			q.HandleTxsUsed([]hash.Hash{t.meta.hash})
			if t.live {
				t.live = false
				if t.seq < math.MaxUint64 && t.seq+1 > r.hw[t.sender] {
					r.hw[t.sender] = t.seq + 1
				}
				r.dropBelow(t.sender)
			}
			symx.Cover("used")
		case 4: // Drain
			got := q.Drain()
			symx.Assert(len(got) == r.liveCount(), "Drain returned a different number of transactions")
			for _, t := range r.txs {
				t.live = false
			}
			symx.Cover("drain")
		}
		r.checkContents(q)
	}
	symx.Cover("end")
}
