package staking

// C01 (kernel): delivery of a transaction does not depend on node-local
// configuration. Two replicas hold the same symbolic consensus state and deliver
// the same symbolic transaction; they differ only in what the operator
// configured locally (minimum gas price, whether the signer is the node's own
// key). Result (success / failure of authentication and of execution), every
// key/value pair of the resulting state, the collected block fees and the gas
// used must be identical.

import (
	"github.com/oasisprotocol/oasis-core/go/common/cbor"
	"github.com/oasisprotocol/oasis-core/go/common/quantity"
	"github.com/oasisprotocol/oasis-core/go/consensus/api/transaction"
	abciAPI "github.com/oasisprotocol/oasis-core/go/consensus/cometbft/api"
	stakingState "github.com/oasisprotocol/oasis-core/go/consensus/cometbft/apps/staking/state"
	symx "github.com/oasisprotocol/oasis-core/go/internal/verifsymx"
	staking "github.com/oasisprotocol/oasis-core/go/staking/api"
)

type vDelivery struct {
	authFailed, execFailed bool
	state                  []vKVPair
	fees                   quantity.Quantity
	gasUsed                transaction.Gas
}

func vDeliverOn(replica string, method int) *vDelivery {
	vLocalSuffix = replica
	defer func() { vLocalSuffix = "" }()
	w := vNewWorld(abciAPI.ContextDeliverTx, method == 2 || method == 3)
	w.params.GasCosts = transaction.Costs{
		staking.GasOpTransfer: transaction.Gas(symx.Uint64("gasCost")), staking.GasOpBurn: transaction.Gas(symx.Uint64("gasCost")),
		staking.GasOpAddEscrow: transaction.Gas(symx.Uint64("gasCost")), staking.GasOpReclaimEscrow: transaction.Gas(symx.Uint64("gasCost")),
	}
	w.vSetParams()
	name, body := vTxBody(w, method)
	tx := &transaction.Transaction{
		Nonce:  symx.Uint64("txNonce"),
		Fee:    &transaction.Fee{Amount: *vQ("feeAmount"), Gas: transaction.Gas(symx.Uint64("feeGas"))},
		Method: name,
		Body:   cbor.Marshal(body),
	}
	w.vBegin()
	w.ctx.SetTxSigner(w.pks[0])
	d := &vDelivery{}
	if err := w.app.AuthenticateTx(w.ctx, tx); err != nil {
		d.authFailed = true
	} else if err = w.app.ExecuteTx(w.ctx, tx); err != nil {
		d.execFailed = true
	}
	d.state = w.vSnapshot()
	d.fees = stakingState.BlockFees(w.ctx)
	d.gasUsed = w.ctx.Gas().GasUsed()
	return d
}

// VerifC01LocalConfig: cfg method selects the transaction kind.
func VerifC01LocalConfig() {
	method := symx.Cfg("method", 0)
	a := vDeliverOn("", method)
	b := vDeliverOn("@replica2", method)
	if a.authFailed {
		symx.Cover("auth-failed")
	} else if a.execFailed {
		symx.Cover("tx-failed")
	} else {
		symx.Cover("tx-ok")
	}
	symx.Assert(a.authFailed == b.authFailed, "transaction authentication in delivery depends on node-local configuration")
	symx.Assert(a.execFailed == b.execFailed, "transaction result in delivery depends on node-local configuration")
	symx.Assert(vSameState(a.state, b.state), "state after delivery depends on node-local configuration")
	symx.Assert(a.fees.Cmp(&b.fees) == 0, "collected block fees depend on node-local configuration")
	symx.Assert(a.gasUsed == b.gasUsed, "gas used depends on node-local configuration")
	symx.Cover("end")
}
