package staking

// Shared set-up of the staking-app harnesses (C05, C08, C09, C10, C15): the real
// consensus state tree of the mock application state, the real staking state
// wrappers, and a symbolic pre-state satisfying the repository's own sanity
// invariants (staking/api/sanity_check.go): total supply = sum of all balances
// and pools, pool shares = sum of delegations, a pool without shares is empty.

import (
	"bytes"

	beacon "github.com/oasisprotocol/oasis-core/go/beacon/api"
	"github.com/oasisprotocol/oasis-core/go/common/crypto/signature"
	"github.com/oasisprotocol/oasis-core/go/common/quantity"
	abciAPI "github.com/oasisprotocol/oasis-core/go/consensus/cometbft/api"
	stakingState "github.com/oasisprotocol/oasis-core/go/consensus/cometbft/apps/staking/state"
	symx "github.com/oasisprotocol/oasis-core/go/internal/verifsymx"
	staking "github.com/oasisprotocol/oasis-core/go/staking/api"
)

func vQ(name string) *quantity.Quantity {
	q := quantity.NewQuantity()
	if err := q.FromBigInt(symx.Nat(name)); err != nil {
		symx.Unreachable("non-negative integer rejected by FromBigInt")
	}
	return q
}

func vPK(b byte) signature.PublicKey {
	var pk signature.PublicKey
	pk[0] = b
	pk[31] = 0x77
	return pk
}

// vEpoch is the current epoch of the harness world (epochs end up inside state
// keys; they are enumerated around this value instead of being fully symbolic).
const vEpoch = beacon.EpochTime(10)

// vWorld is the symbolic pre-state.
//   accounts 0 (A, the signer), 1 (B), 2 (E, the escrow account unless cfg escrowIs selects 0 or 1)
//   E has an active and a debonding pool; A and B hold delegations into E
//   (shares sum to the pool totals) and one debonding delegation each.
type vWorld struct {
	appState abciAPI.MockApplicationState
	ctx      *abciAPI.Context
	state    *stakingState.MutableState
	app      *Application
	pks      []signature.PublicKey
	addrs    []staking.Address
	mode     abciAPI.ContextMode
	escrow   int // index of the escrow account
	params   *staking.ConsensusParameters
	debEnd   [2]beacon.EpochTime
	withPool bool
}

// vLocalSuffix distinguishes the node-local inputs of the replicas of a two-replica harness.
var vLocalSuffix string

// vBegin switches to the context in which the operation under test runs.
func (w *vWorld) vBegin() {
	w.ctx = w.appState.NewContext(w.mode)
	w.state = stakingState.NewMutableState(w.ctx.State())
}

func vMust(err error, what string) {
	symx.Assert(err == nil, what+" failed")
}

// vNewWorld builds the state. withPool adds escrow pools and delegations.
func vNewWorld(mode abciAPI.ContextMode, withPool bool) *vWorld {
	w := &vWorld{mode: mode, withPool: withPool}
	// node-local configuration (not part of the consensus state): the minimum gas price this node accepts
	// and, with cfg ownsigner=1, whether the transaction signer is this node's own key. vLocalSuffix names
	// the replica so that two worlds in one harness share everything but their local configuration.
	local := &abciAPI.MockApplicationStateConfig{
		CurrentEpoch: vEpoch,
		MinGasPrice:  vQ("localMinGasPrice" + vLocalSuffix),
	}
	if symx.Cfg("ownsigner", 0) == 1 && symx.Bool("ownTxSigner"+vLocalSuffix) {
		local.OwnTxSigner = vPK(1)
	}
	w.appState = abciAPI.NewMockApplicationState(local)
	w.ctx = w.appState.NewContext(abciAPI.ContextInitChain)
	w.state = stakingState.NewMutableState(w.ctx.State())
	w.app = &Application{state: w.appState}
	w.escrow = symx.Cfg("escrowIs", 2)
	total := quantity.NewQuantity()
	accts := make([]*staking.Account, 3)
	for i := 0; i < 3; i++ {
		pk := vPK(byte(i + 1))
		w.pks = append(w.pks, pk)
		w.addrs = append(w.addrs, staking.NewAddress(pk))
		accts[i] = &staking.Account{}
		accts[i].General.Balance = *vQ(symx.N("bal", i))
		accts[i].General.Nonce = symx.Uint64(symx.N("nonce", i))
		_ = total.Add(&accts[i].General.Balance)
	}
	if withPool {
		e := accts[w.escrow]
		e.Escrow.Active.Balance = *vQ("actBal")
		lean := symx.Cfg("lean", 0) == 1 // no debonding pool / delegations (operations that never touch them)
		if !lean {
			e.Escrow.Debonding.Balance = *vQ("debBal")
		}
		_ = total.Add(&e.Escrow.Active.Balance)
		_ = total.Add(&e.Escrow.Debonding.Balance)
		for i := 0; i < 2; i++ {
			d := &staking.Delegation{Shares: *vQ(symx.N("delShares", i))}
			_ = e.Escrow.Active.TotalShares.Add(&d.Shares)
			if !d.Shares.IsZero() {
				vMust(w.state.SetDelegation(w.ctx, w.addrs[i], w.addrs[w.escrow], d), "SetDelegation")
			}
			if lean {
				continue
			}
			// debonding end epochs around the current epoch (they are part of state keys, kept concrete per path)
			w.debEnd[i] = vEpoch - 1 + beacon.EpochTime(symx.Choose(symx.N("debEnd", i), 3))
			dd := &staking.DebondingDelegation{Shares: *vQ(symx.N("debShares", i)), DebondEndTime: w.debEnd[i]}
			_ = e.Escrow.Debonding.TotalShares.Add(&dd.Shares)
			if !dd.Shares.IsZero() {
				vMust(w.state.SetDebondingDelegation(w.ctx, w.addrs[i], w.addrs[w.escrow], dd.DebondEndTime, dd), "SetDebondingDelegation")
			}
		}
		if symx.Cfg("commission", 0) == 1 {
			// a current commission rate anywhere in [0, 100%] (what amendCommissionSchedule admits)
			rate := vQ("commissionRate")
			symx.Assume(rate.Cmp(staking.CommissionRateDenominator) <= 0)
			e.Escrow.CommissionSchedule.Rates = []staking.CommissionRateStep{{Start: 0, Rate: *rate}}
		}
		symx.Assume(!e.Escrow.Active.TotalShares.IsZero() || e.Escrow.Active.Balance.IsZero())
		symx.Assume(!e.Escrow.Debonding.TotalShares.IsZero() || e.Escrow.Debonding.Balance.IsZero())
		if symx.Cfg("pool2", 0) == 1 && w.escrow != 1 {
			// a second escrow account: B with an active pool held by its own self-delegation
			b := accts[1]
			b.Escrow.Active.Balance = *vQ("actBal2")
			_ = total.Add(&b.Escrow.Active.Balance)
			d := &staking.Delegation{Shares: *vQ("selfShares2")}
			_ = b.Escrow.Active.TotalShares.Add(&d.Shares)
			if !d.Shares.IsZero() {
				vMust(w.state.SetDelegation(w.ctx, w.addrs[1], w.addrs[1], d), "SetDelegation")
			}
			symx.Assume(!b.Escrow.Active.TotalShares.IsZero() || b.Escrow.Active.Balance.IsZero())
		}
	}
	for i := 0; i < 3; i++ {
		vMust(w.state.SetAccount(w.ctx, w.addrs[i], accts[i]), "SetAccount")
	}
	cp, fees, gov := vQ("commonPool"), vQ("lastBlockFees"), vQ("govDeposits")
	_ = total.Add(cp)
	_ = total.Add(fees)
	_ = total.Add(gov)
	vMust(w.state.SetCommonPool(w.ctx, cp), "SetCommonPool")
	vMust(w.state.SetLastBlockFees(w.ctx, fees), "SetLastBlockFees")
	vMust(w.state.SetGovernanceDeposits(w.ctx, gov), "SetGovernanceDeposits")
	vMust(w.state.SetTotalSupply(w.ctx, total), "SetTotalSupply")
	p := &staking.ConsensusParameters{}
	p.MinTransferAmount = *vQ("minTransfer")
	p.MinTransactBalance = *vQ("minTransactBalance")
	p.MinDelegationAmount = *vQ("minDelegation")
	p.DebondingInterval = 1
	if symx.Cfg("lean", 0) == 0 {
		p.DebondingInterval = beacon.EpochTime(1 + symx.Choose("debondingInterval", 2))
	}
	p.MaxAllowances = 2
	w.params = p
	return w
}

// vSetParams stores the (possibly harness-adjusted) consensus parameters.
func (w *vWorld) vSetParams() {
	vMust(w.state.SetConsensusParameters(w.ctx, w.params), "SetConsensusParameters")
}

// vSum recomputes the grand total of everything the supply invariant counts,
// plus the fees collected in the current block (block context accumulator).
func (w *vWorld) vSum() *quantity.Quantity {
	sum := quantity.NewQuantity()
	for _, a := range w.addrs {
		acct, err := w.state.Account(w.ctx, a)
		vMust(err, "Account")
		_ = sum.Add(&acct.General.Balance)
		_ = sum.Add(&acct.Escrow.Active.Balance)
		_ = sum.Add(&acct.Escrow.Debonding.Balance)
	}
	cp, err := w.state.CommonPool(w.ctx)
	vMust(err, "CommonPool")
	_ = sum.Add(cp)
	lf, err := w.state.LastBlockFees(w.ctx)
	vMust(err, "LastBlockFees")
	_ = sum.Add(lf)
	gd, err := w.state.GovernanceDeposits(w.ctx)
	vMust(err, "GovernanceDeposits")
	_ = sum.Add(gd)
	bf := stakingState.BlockFees(w.ctx)
	_ = sum.Add(&bf)
	return sum
}

// vCheckInvariants asserts the supply and share-bookkeeping invariants and
// returns the total supply.
func (w *vWorld) vCheckInvariants(label string) *quantity.Quantity {
	ts, err := w.state.TotalSupply(w.ctx)
	vMust(err, "TotalSupply")
	symx.Assert(ts.Cmp(w.vSum()) == 0, label+": total supply != sum of balances, pools and carried fees")
	// every account's pool share totals equal the sum of (debonding) delegations into it
	dels, err := w.state.Delegations(w.ctx)
	vMust(err, "Delegations")
	debs, err := w.state.DebondingDelegations(w.ctx)
	vMust(err, "DebondingDelegations")
	for _, a := range w.addrs {
		acct, err := w.state.Account(w.ctx, a)
		vMust(err, "Account")
		act, deb := quantity.NewQuantity(), quantity.NewQuantity()
		for _, byDelegator := range dels[a] {
			_ = act.Add(&byDelegator.Shares)
		}
		for _, byDelegator := range debs[a] {
			for _, dd := range byDelegator {
				_ = deb.Add(&dd.Shares)
			}
		}
		symx.Assert(acct.Escrow.Active.TotalShares.Cmp(act) == 0, label+": active pool total shares != sum of delegations")
		symx.Assert(acct.Escrow.Debonding.TotalShares.Cmp(deb) == 0, label+": debonding pool total shares != sum of debonding delegations")
		symx.Assert(!acct.Escrow.Active.TotalShares.IsZero() || acct.Escrow.Active.Balance.IsZero(), label+": active pool has balance but no shares")
		symx.Assert(!acct.Escrow.Debonding.TotalShares.IsZero() || acct.Escrow.Debonding.Balance.IsZero(), label+": debonding pool has balance but no shares")
	}
	return ts
}

// vSnapshot lists every key/value pair of the consensus state tree.
type vKVPair struct{ k, v []byte }

func (w *vWorld) vSnapshot() []vKVPair {
	var out []vKVPair
	it := w.ctx.State().NewIterator(w.ctx)
	defer it.Close()
	for it.Rewind(); it.Valid(); it.Next() {
		out = append(out, vKVPair{append([]byte{}, it.Key()...), it.Value()})
	}
	return out
}

// vSameState reports whether two snapshots are identical.
func vSameState(a, b []vKVPair) bool {
	if len(a) != len(b) {
		return false
	}
	for i := range a {
		if !bytes.Equal(a[i].k, b[i].k) || !bytes.Equal(a[i].v, b[i].v) {
			return false
		}
	}
	return true
}
