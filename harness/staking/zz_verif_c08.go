package staking

// C08 / C09(1): the delivery pipeline for one staking transaction:
// AuthenticateTx (nonce, fee) -> per-byte gas -> ExecuteTx, on a symbolic pre-state.

import (
	"github.com/oasisprotocol/oasis-core/go/common/cbor"
	"github.com/oasisprotocol/oasis-core/go/common/quantity"
	"github.com/oasisprotocol/oasis-core/go/consensus/api/transaction"
	abciAPI "github.com/oasisprotocol/oasis-core/go/consensus/cometbft/api"
	stakingState "github.com/oasisprotocol/oasis-core/go/consensus/cometbft/apps/staking/state"
	symx "github.com/oasisprotocol/oasis-core/go/internal/verifsymx"
	staking "github.com/oasisprotocol/oasis-core/go/staking/api"
)

// vHookSubscriber stands for an application subscribed to account hooks: on every invocation it records
// what it authorised in the state of the context it is called with, or refuses.
type vHookSubscriber struct{ calls int }

var errVHookRefused = staking.ErrForbidden

func (h *vHookSubscriber) Subscribe(any, abciAPI.MessageSubscriber) {}

func (h *vHookSubscriber) Publish(ctx *abciAPI.Context, _ abciAPI.Message) (any, error) {
	h.calls++
	if symx.Bool("hookRefuses") {
		return nil, errVHookRefused
	}
	if err := ctx.State().Insert(ctx, []byte("\xEFverif/hook-quota-used"), []byte{byte(h.calls)}); err != nil {
		return nil, err
	}
	return struct{}{}, nil
}

func vTxBody(w *vWorld, method int) (transaction.MethodName, any) {
	switch method {
	case 0:
		return staking.MethodTransfer, &staking.Transfer{To: w.addrs[1], Amount: *vQ("amount")}
	case 1:
		return staking.MethodBurn, &staking.Burn{Amount: *vQ("amount")}
	case 2:
		return staking.MethodAddEscrow, &staking.Escrow{Account: w.addrs[w.escrow], Amount: *vQ("amount")}
	case 3:
		return staking.MethodReclaimEscrow, &staking.ReclaimEscrow{Account: w.addrs[w.escrow], Shares: *vQ("amount")}
	case 4:
		return staking.MethodAllow, &staking.Allow{Beneficiary: w.addrs[1], Negative: symx.Bool("negative"), AmountChange: *vQ("amount")}
	case 5, 6:
		return staking.MethodWithdraw, &staking.Withdraw{From: w.addrs[1], Amount: *vQ("amount")}
	default:
		return staking.MethodTransfer, &staking.Transfer{To: staking.BurnAddress, Amount: *vQ("amount")}
	}
}

// VerifC08Tx: cfg method selects the transaction kind, cfg mode the context
// (0 deliver, 1 check, 2 simulate).
func VerifC08Tx() {
	modes := []abciAPI.ContextMode{abciAPI.ContextDeliverTx, abciAPI.ContextCheckTx, abciAPI.ContextSimulateTx}
	mode := modes[symx.Cfg("mode", 0)]
	method := symx.Cfg("method", 0)
	w := vNewWorld(mode, method == 2 || method == 3) // escrow pools only where the handler touches them
	// gas: every operation costs a symbolic amount, the limit is symbolic: exhaustion can hit any charge point
	w.params.GasCosts = transaction.Costs{
		staking.GasOpTransfer: transaction.Gas(symx.Uint64("gasCost")), staking.GasOpBurn: transaction.Gas(symx.Uint64("gasCost")),
		staking.GasOpAddEscrow: transaction.Gas(symx.Uint64("gasCost")), staking.GasOpReclaimEscrow: transaction.Gas(symx.Uint64("gasCost")),
		staking.GasOpAllow: transaction.Gas(symx.Uint64("gasCost")), staking.GasOpWithdraw: transaction.Gas(symx.Uint64("gasCost")),
	}
	if method == 5 {
		// withdraw needs an allowance given by account 1 to the signer
		acct, _ := w.state.Account(w.ctx, w.addrs[1])
		acct.General.Allowances = map[staking.Address]quantity.Quantity{w.addrs[0]: *vQ("allowance")}
		vMust(w.state.SetAccount(w.ctx, w.addrs[1], acct), "SetAccount")
	}
	if method == 6 {
		// withdraw from an account whose withdrawals are authorised by a hook of another application (as vault
		// accounts are): the subscriber keeps its own books in the consensus state and may refuse
		acct, _ := w.state.Account(w.ctx, w.addrs[1])
		acct.General.Hooks = map[staking.HookKind]staking.HookDestination{staking.HookKindWithdraw: {Module: "verif-hook"}}
		vMust(w.state.SetAccount(w.ctx, w.addrs[1], acct), "SetAccount")
		w.app.md = &vHookSubscriber{}
	}
	w.vSetParams()
	w.vCheckInvariants("pre-state")
	name, body := vTxBody(w, method)
	tx := &transaction.Transaction{
		Nonce:  symx.Uint64("txNonce"),
		Fee:    &transaction.Fee{Amount: *vQ("feeAmount"), Gas: transaction.Gas(symx.Uint64("feeGas"))},
		Method: name,
		Body:   cbor.Marshal(body),
	}
	pre := w.vSnapshot()
	signerBefore, _ := w.state.Account(w.ctx, w.addrs[0])
	nonceBefore := signerBefore.General.Nonce
	symx.Assume(nonceBefore < ^uint64(0)) // 2^64-1 transactions by one account: unreachable
	balBefore := signerBefore.General.Balance.Clone()
	declaredFee := tx.Fee.Amount.Clone() // (a copy: the code under test must not be able to change what "declared" means)

	w.vBegin()
	w.ctx.SetTxSigner(w.pks[0])
	feesBefore := stakingState.BlockFees(w.ctx)
	err := w.app.AuthenticateTx(w.ctx, tx)
	if err != nil {
		symx.Cover("auth-failed")
		symx.Assert(vSameState(pre, w.vSnapshot()), "a transaction rejected at authentication changed the state")
		return
	}
	symx.Cover("auth-ok")
	if mode != abciAPI.ContextDeliverTx {
		symx.Assert(vSameState(pre, w.vSnapshot()), "CheckTx / simulation authentication changed the state")
	} else {
		// C09(1): executed only with the account's current nonce; nonce advances by exactly one
		symx.Assert(tx.Nonce == nonceBefore, "transaction authenticated with a nonce different from the account nonce")
		signerAfter, _ := w.state.Account(w.ctx, w.addrs[0])
		symx.Assert(signerAfter.General.Nonce == nonceBefore+1, "nonce not advanced by exactly one")
		wantBal := balBefore.Clone()
		symx.Assert(wantBal.Sub(declaredFee) == nil && signerAfter.General.Balance.Cmp(wantBal) == 0, "signer not charged exactly the declared fee")
		feesAfter := stakingState.BlockFees(w.ctx)
		wantFees := feesBefore.Clone()
		_ = wantFees.Add(declaredFee)
		symx.Assert(feesAfter.Cmp(wantFees) == 0, "fee accumulator not credited exactly the declared fee")
		// nothing else changed: restoring the signer's account restores the whole state
		restore := *signerAfter
		restore.General.Nonce = nonceBefore
		restore.General.Balance = *balBefore
		cur := w.vSnapshot()
		_ = cur
		symx.Assert(len(cur) == len(pre), "authentication added or removed state entries")
		// replay protection: the same transaction cannot authenticate again
		ctx2 := w.appState.NewContext(mode)
		ctx2.SetTxSigner(w.pks[0])
		symx.Assert(w.app.AuthenticateTx(ctx2, tx) != nil, "the same transaction authenticated twice")
	}
	postAuth := w.vSnapshot()
	// per-byte gas charge as in the multiplexer, then the handler
	err = w.app.ExecuteTx(w.ctx, tx)
	if err != nil {
		symx.Cover("tx-failed")
		symx.Assert(vSameState(postAuth, w.vSnapshot()), "a failed transaction changed state beyond fee and nonce")
	} else {
		symx.Cover("tx-ok")
		if mode != abciAPI.ContextDeliverTx {
			symx.Assert(vSameState(postAuth, w.vSnapshot()), "CheckTx / simulation execution changed the state")
		}
	}
	w.vCheckInvariants("after transaction")
}
