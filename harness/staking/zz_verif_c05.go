package staking

// C05: supply conservation and share bookkeeping, one inductive step per operation.

import (
	"github.com/oasisprotocol/oasis-core/go/common/crypto/signature"
	"github.com/oasisprotocol/oasis-core/go/common/quantity"
	abciAPI "github.com/oasisprotocol/oasis-core/go/consensus/cometbft/api"
	symx "github.com/oasisprotocol/oasis-core/go/internal/verifsymx"
	staking "github.com/oasisprotocol/oasis-core/go/staking/api"
)

// vStep runs op between two invariant checks; burned is the amount op reports as burned (nil: none).
func vStep(w *vWorld, name string, op func() (burned *quantity.Quantity, err error)) {
	w.vSetParams()
	before := w.vCheckInvariants("pre-state").Clone()
	w.vBegin()
	burned, err := op()
	after := w.vCheckInvariants("after " + name)
	symx.Assert(after.Cmp(before) <= 0, name+" increased the total supply")
	if err == nil {
		symx.Cover(name + "-ok")
		if burned != nil {
			want := before.Clone()
			symx.Assert(want.Sub(burned) == nil && after.Cmp(want) == 0, name+": total supply did not fall by exactly the burned amount")
		} else {
			symx.Assert(after.Cmp(before) == 0, name+" changed the total supply")
		}
	} else {
		symx.Cover(name + "-failed")
		symx.Assert(after.Cmp(before) == 0, "failed "+name+" changed the total supply")
	}
}

// VerifC05Transfer: transfer A -> B (cfg to: 0 self, 1 B, 2 E, 3 burn address).
func VerifC05Transfer() {
	w := vNewWorld(abciAPI.ContextDeliverTx, symx.Cfg("pool", 0) == 1)
	amount := vQ("amount")
	vStep(w, "transfer", func() (*quantity.Quantity, error) {
		w.ctx.SetTxSigner(w.pks[0])
		var to staking.Address
		toBurn := false
		switch symx.Cfg("to", 1) {
		case 3:
			to = staking.BurnAddress
			toBurn = true
		default:
			to = w.addrs[symx.Cfg("to", 1)]
		}
		_, err := w.app.transfer(w.ctx, w.state, &staking.Transfer{To: to, Amount: *amount})
		if toBurn {
			return amount, err
		}
		return nil, err
	})
}

// VerifC05Burn: burn from A.
func VerifC05Burn() {
	w := vNewWorld(abciAPI.ContextDeliverTx, false)
	amount := vQ("amount")
	vStep(w, "burn", func() (*quantity.Quantity, error) {
		w.ctx.SetTxSigner(w.pks[0])
		return amount, w.app.burn(w.ctx, w.state, &staking.Burn{Amount: *amount})
	})
}

// VerifC05AddEscrow: A delegates into E (cfg escrowIs 0 = self-delegation).
func VerifC05AddEscrow() {
	w := vNewWorld(abciAPI.ContextDeliverTx, true)
	amount := vQ("amount")
	vStep(w, "addEscrow", func() (*quantity.Quantity, error) {
		w.ctx.SetTxSigner(w.pks[0])
		_, err := w.app.addEscrow(w.ctx, w.state, &staking.Escrow{Account: w.addrs[w.escrow], Amount: *amount}, false)
		return nil, err
	})
}

// VerifC05ReclaimEscrow: A reclaims shares from E.
func VerifC05ReclaimEscrow() {
	w := vNewWorld(abciAPI.ContextDeliverTx, true)
	shares := vQ("shares")
	vStep(w, "reclaimEscrow", func() (*quantity.Quantity, error) {
		w.ctx.SetTxSigner(w.pks[0])
		_, err := w.app.reclaimEscrow(w.ctx, w.state, &staking.ReclaimEscrow{Account: w.addrs[w.escrow], Shares: *shares}, false)
		return nil, err
	})
}

// VerifC05SlashEscrow: slash E's escrow by a symbolic amount (BeginBlock context).
// Also the C15 clause: the same fraction is taken from the active and the debonding pool.
func VerifC05SlashEscrow() {
	w := vNewWorld(abciAPI.ContextBeginBlock, true)
	amount := vQ("amount")
	var pre *staking.Account
	vStep(w, "slashEscrow", func() (*quantity.Quantity, error) {
		pre, _ = w.state.Account(w.ctx, w.addrs[w.escrow])
		slashed, err := w.state.SlashEscrow(w.ctx, w.addrs[w.escrow], amount)
		symx.Assert(err == nil, "SlashEscrow failed (would halt the chain)")
		post, _ := w.state.Account(w.ctx, w.addrs[w.escrow])
		symx.Assert(slashed.Cmp(amount) <= 0, "slashed more than requested")
		total := pre.Escrow.Active.Balance.Clone()
		_ = total.Add(&pre.Escrow.Debonding.Balance)
		a1 := pre.Escrow.Active.Balance.Clone()
		symx.Assert(a1.Sub(&post.Escrow.Active.Balance) == nil, "active pool grew when slashed")
		d1 := pre.Escrow.Debonding.Balance.Clone()
		symx.Assert(d1.Sub(&post.Escrow.Debonding.Balance) == nil, "debonding pool grew when slashed")
		sum := a1.Clone()
		_ = sum.Add(d1)
		symx.Assert(sum.Cmp(slashed) == 0, "reported slashed amount != what left the pools")
		if !total.IsZero() && amount.Cmp(total) < 0 {
			// each pool loses floor(balance * amount / total)
			prs := []struct{ took, bal *quantity.Quantity }{{a1, &pre.Escrow.Active.Balance}, {d1, &pre.Escrow.Debonding.Balance}}
			if which := symx.Cfg("which", -1); which >= 0 {
				prs = prs[which : which+1]
			}
			for _, pr := range prs {
				lhs := pr.took.Clone()
				_ = lhs.Mul(total)
				rhs := pr.bal.Clone()
				_ = rhs.Mul(amount)
				symx.Assert(lhs.Cmp(rhs) <= 0, "a pool lost more than its pro-rata share of the slash")
				_ = lhs.Add(total)
				symx.Assert(lhs.Cmp(rhs) > 0, "a pool lost less than its pro-rata share of the slash (beyond rounding)")
			}
			symx.Cover("slash-partial")
		}
		return nil, err
	})
}

// VerifC05TransferFromCommon: reward a (possibly self-escrowing) account from the common pool.
func VerifC05TransferFromCommon() {
	w := vNewWorld(abciAPI.ContextEndBlock, true)
	amount := vQ("amount")
	escrow := symx.Cfg("escrow", 1) == 1
	// the rewarded account is E; its own delegation to itself may or may not exist
	vStep(w, "transferFromCommon", func() (*quantity.Quantity, error) {
		_, err := w.state.TransferFromCommon(w.ctx, w.addrs[w.escrow], amount, escrow)
		if symx.Cfg("mustSucceed", 0) == 1 {
			// C10: this runs from EndBlock (discrepancy-resolution rewards); an error halts the chain
			symx.Assert(err == nil, "TransferFromCommon failed in EndBlock (would halt the chain)")
		}
		return nil, err
	})
}

// VerifC05StateTransfer: state-level Transfer (used by runtime messages and governance).
func VerifC05StateTransfer() {
	w := vNewWorld(abciAPI.ContextEndBlock, false)
	amount := vQ("amount")
	vStep(w, "stateTransfer", func() (*quantity.Quantity, error) {
		return nil, w.state.Transfer(w.ctx, w.addrs[0], w.addrs[1], amount)
	})
}

// VerifC05GovernanceDeposits: move a deposit in, back out, or discard it.
func VerifC05GovernanceDeposits() {
	w := vNewWorld(abciAPI.ContextEndBlock, false)
	amount := vQ("amount")
	kind := symx.Cfg("kind", 0)
	vStep(w, "governanceDeposit", func() (*quantity.Quantity, error) {
		switch kind {
		case 0:
			return nil, w.state.TransferToGovernanceDeposits(w.ctx, w.addrs[0], amount)
		case 1:
			return nil, w.state.TransferFromGovernanceDeposits(w.ctx, w.addrs[0], amount)
		default:
			return nil, w.state.DiscardGovernanceDeposit(w.ctx, amount)
		}
	})
}

// VerifC05Debonding: the epoch transition pays out expired debonding delegations.
// C15 clause: an entry is paid iff its end epoch <= the new epoch, exactly once,
// at the debonding pool's price.
func VerifC05Debonding() {
	w := vNewWorld(abciAPI.ContextBeginBlock, true)
	var preBal [2]*quantity.Quantity
	var preDeb [2]*staking.DebondingDelegation
	var prePool staking.SharePool
	vStep(w, "epochChange", func() (*quantity.Quantity, error) {
		e, _ := w.state.Account(w.ctx, w.addrs[w.escrow])
		prePool = e.Escrow.Debonding
		for i := 0; i < 2; i++ {
			a, _ := w.state.Account(w.ctx, w.addrs[i])
			preBal[i] = a.General.Balance.Clone()
			preDeb[i], _ = w.state.DebondingDelegation(w.ctx, w.addrs[i], w.addrs[w.escrow], w.debEnd[i])
		}
		err := w.app.onEpochChange(w.ctx, vEpoch)
		symx.Assert(err == nil, "epoch transition failed (would halt the chain)")
		for i := 0; i < 2; i++ {
			a, _ := w.state.Account(w.ctx, w.addrs[i])
			dd, _ := w.state.DebondingDelegation(w.ctx, w.addrs[i], w.addrs[w.escrow], w.debEnd[i])
			had := preDeb[i] != nil && !preDeb[i].Shares.IsZero()
			switch {
			case had && w.debEnd[i] <= vEpoch:
				symx.Assert(dd == nil || dd.Shares.IsZero(), "expired debonding delegation still recorded after the epoch transition")
				symx.Assert(a.General.Balance.Cmp(preBal[i]) >= 0, "delegator lost funds on debonding completion")
				symx.Cover("paid")
			case had:
				symx.Assert(dd != nil && dd.Shares.Cmp(&preDeb[i].Shares) == 0, "debonding delegation released before its end epoch")
				if w.escrow != i && (w.escrow == 2 || i != w.escrow) && !(preDeb[1-i] != nil && !preDeb[1-i].Shares.IsZero() && w.debEnd[1-i] <= vEpoch && false) {
					symx.Assert(a.General.Balance.Cmp(preBal[i]) == 0, "delegator paid before its debonding end epoch")
				}
				symx.Cover("not-yet")
			}
		}
		// paid at the debonding pool's price: with a single expired entry the payout is floor(shares*balance/total)
		for i := 0; i < 2; i++ {
			other := 1 - i
			hadI := preDeb[i] != nil && !preDeb[i].Shares.IsZero() && w.debEnd[i] <= vEpoch
			hadO := preDeb[other] != nil && !preDeb[other].Shares.IsZero() && w.debEnd[other] <= vEpoch
			if hadI && !hadO && w.escrow == 2 {
				want, _ := prePool.StakeForShares(&preDeb[i].Shares)
				a, _ := w.state.Account(w.ctx, w.addrs[i])
				got := a.General.Balance.Clone()
				symx.Assert(got.Sub(preBal[i]) == nil && got.Cmp(want) == 0, "debonding payout differs from the pool price")
				symx.Cover("price-checked")
			}
		}
		// a second transition at the same epoch pays nothing more
		snap := w.vSnapshot()
		err = w.app.onEpochChange(w.ctx, vEpoch)
		symx.Assert(err == nil, "second epoch transition failed")
		symx.Assert(vSameState(snap, w.vSnapshot()), "a debonding delegation was paid twice")
		return nil, nil
	})
}

// VerifC05AddRewards: epoch-signing style reward to E (BeginBlock/EndBlock paths).
func VerifC05AddRewards() {
	w := vNewWorld(abciAPI.ContextEndBlock, true)
	factor := vQ("factor")
	w.params.RewardSchedule = []staking.RewardStep{{Until: vEpoch + 1, Scale: *vQ("scale")}}
	single := symx.Cfg("single", 0) == 1
	vStep(w, "addRewards", func() (*quantity.Quantity, error) {
		var err error
		if single {
			num := int(symx.Uint8("attNum"))
			den := int(symx.Uint8("attDen"))
			symx.Assume(den > 0 && num <= den)
			err = w.state.AddRewardSingleAttenuated(w.ctx, vEpoch, factor, num, den, w.addrs[w.escrow])
		} else {
			addrs := []staking.Address{w.addrs[w.escrow]}
			switch symx.Cfg("pool2", 0)*(1+symx.Cfg("order", 0)) {
			case 1: // two rewarded entities, E first
				addrs = append(addrs, w.addrs[1])
			case 2: // B first
				addrs = []staking.Address{w.addrs[1], w.addrs[w.escrow]}
			}
			err = w.state.AddRewards(w.ctx, vEpoch, factor, addrs)
		}
		symx.Assert(err == nil, "reward distribution failed (would halt the chain)")
		return nil, err
	})
}

// VerifC05Fees: the fee flow of one block. BeginBlock pays out the fees persisted by the
// previous block (disburseFeesVQ: voters and this block's proposer), the block's transactions
// pay fees into the accumulator, EndBlock splits them (disburseFeesP: proposer now, the rest
// persisted for the next block). Supply is conserved over the block and neither call may
// fail (both run in BeginBlock / EndBlock).
//
// Pre-state: any invariant-satisfying state, any last-block fees, any fee split weights that
// pass the parameter sanity check (not all zero), 0..3 validators in the commit of which any
// prefix voted (accounts B, E, A), proposer A or unknown.
func VerifC05Fees() {
	w := vNewWorld(abciAPI.ContextBeginBlock, false)
	w.params.FeeSplitWeightPropose = *vQ("weightPropose")
	w.params.FeeSplitWeightVote = *vQ("weightVote")
	w.params.FeeSplitWeightNextPropose = *vQ("weightNextPropose")
	symx.Assume(!(w.params.FeeSplitWeightPropose.IsZero() && w.params.FeeSplitWeightVote.IsZero() && w.params.FeeSplitWeightNextPropose.IsZero()))
	numEligible := symx.Choose("numEligibleValidators", 4) // 0: the first block after genesis has an empty commit
	numVoting := symx.Choose("numVoting", numEligible+1)
	voters := []signature.PublicKey{w.pks[1], w.pks[2], w.pks[0]}[:numVoting]
	var proposer *signature.PublicKey
	if symx.Bool("proposerKnown") {
		proposer = &w.pks[0]
	}
	blockFees := vQ("blockFees")
	vStep(w, "fees", func() (*quantity.Quantity, error) {
		err := w.app.disburseFeesVQ(w.ctx, w.state, proposer, numEligible, voters)
		symx.Assert(err == nil, "disburseFeesVQ failed in BeginBlock (would halt the chain)")
		// the block's transactions: A pays blockFees into the accumulator
		a, _ := w.state.Account(w.ctx, w.addrs[0])
		symx.Assume(a.General.Balance.Cmp(blockFees) >= 0)
		_ = a.General.Balance.Sub(blockFees)
		vMust(w.state.SetAccount(w.ctx, w.addrs[0], a), "SetAccount")
		total := blockFees.Clone()
		err = w.app.disburseFeesP(w.ctx, w.state, proposer, total)
		symx.Assert(err == nil, "disburseFeesP failed in EndBlock (would halt the chain)")
		return nil, nil
	})
}
