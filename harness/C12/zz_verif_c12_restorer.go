package checkpoint

// C12 (restore protocol): the real restorer (StartRestore / RestoreChunk) driven
// by a symbolic script of chunk deliveries with retries, duplicates and faults,
// compared after every call against a reference written from the property text:
//   - a good chunk that is still pending is imported; done is reported exactly
//     when the last pending chunk has been imported;
//   - a delivery that fails for any reason (transient node-database failure,
//     bytes not matching the digest) imports nothing and leaves the chunk
//     pending, so a retry succeeds;
//   - a chunk that matches its digest but not the root aborts the restore;
//   - after "done" the restored database holds exactly the checkpointed tree.
//
// The real writeChunk / restoreChunk run in both modes (stream codecs modelled
// under the engine, see zz_verif_c12.go).

import (
	"bytes"
	"errors"
	"io"

	"github.com/golang/snappy"

	"github.com/oasisprotocol/oasis-core/go/common/cbor"
	"github.com/oasisprotocol/oasis-core/go/common/crypto/hash"
	symx "github.com/oasisprotocol/oasis-core/go/internal/verifsymx"
	"github.com/oasisprotocol/oasis-core/go/storage/mkvs"
	"github.com/oasisprotocol/oasis-core/go/storage/mkvs/node"
	"github.com/oasisprotocol/oasis-core/go/storage/mkvs/syncer"
)

// c12DecodeProof recovers the proof entries from chunk file bytes.
func c12DecodeProof(buf []byte) *syncer.Proof {
	dec := cbor.NewDecoder(snappy.NewReader(bytes.NewReader(buf)))
	p := &syncer.Proof{V: v1ProofsVersion}
	for {
		var entry []byte
		if err := dec.Decode(&entry); err != nil {
			break
		}
		p.Entries = append(p.Entries, entry)
	}
	return p
}

// c12Tamper returns a copy of the proof with one byte of its last non-empty entry altered.
func c12Tamper(p *syncer.Proof, by byte) *syncer.Proof {
	q := &syncer.Proof{V: p.V, UntrustedRoot: p.UntrustedRoot}
	last := -1
	for i, e := range p.Entries {
		q.Entries = append(q.Entries, append([]byte(nil), e...))
		if len(e) > 0 {
			last = i
		}
	}
	symx.Assume(last >= 0)
	e := q.Entries[last]
	e[len(e)-1] ^= by
	return q
}

type c12Chunk struct {
	bytes  []byte
	digest hash.Hash
}

func (c *c12Chunk) reader() io.Reader { return bytes.NewReader(c.bytes) }

// tampered returns a well-formed chunk (with its own digest) whose contents were altered.
func (c *c12Chunk) tampered(by byte) *c12Chunk {
	q := c12Tamper(c12DecodeProof(c.bytes), by)
	var buf bytes.Buffer
	d, err := writeChunk(q, &buf)
	symx.Assert(err == nil, "writeChunk failed")
	return &c12Chunk{bytes: buf.Bytes(), digest: d}
}

// VerifC12Restorer: k symbolic entries, one leaf per chunk, n deliveries.
func VerifC12Restorer() {
	k := symx.Cfg("k", 2)
	n := symx.Cfg("n", 3)
	d := newVMemDB()
	t := mkvs.New(nil, d, node.RootTypeState)
	type kv struct{ k, v []byte }
	var contents []kv
	for i := 0; i < k; i++ {
		key, val := c12Key(i), symx.Bytes(symx.N("val", i), 1)
		symx.Assert(t.Insert(c12Ctx, key, val) == nil, "Insert failed")
		dup := false
		for j := range contents {
			if bytes.Equal(contents[j].k, key) {
				contents[j].v = val
				dup = true
			}
		}
		if !dup {
			contents = append(contents, kv{key, val})
		}
	}
	_, h, err := t.Commit(c12Ctx, c12Ns, 1)
	symx.Assert(err == nil, "Commit failed")
	root := node.Root{Namespace: c12Ns, Version: 1, Type: node.RootTypeState, Hash: h}

	wf := &vSinkFactory{}
	digests, err := (&seqChunker{ndb: d, root: root, chunkSize: 1}).chunk(c12Ctx, wf)
	symx.Assert(err == nil && len(digests) == len(wf.sinks) && len(digests) >= 1, "chunking failed")
	chunks := make([]*c12Chunk, len(digests))
	for i := range digests {
		chunks[i] = &c12Chunk{bytes: wf.sinks[i].buf.Bytes(), digest: digests[i]}
	}
	// cfg bad=1: the checkpoint was advertised with one chunk whose digest is consistent
	// with its bytes but whose contents do not belong to the root
	bad := -1
	if symx.Cfg("bad", 0) == 1 {
		bad = symx.Choose("badChunk", len(chunks))
		by := symx.Uint8("badBy")
		symx.Assume(by != 0)
		chunks[bad] = chunks[bad].tampered(by)
	}
	meta := &Metadata{Version: 1, Root: root}
	for _, c := range chunks {
		meta.Chunks = append(meta.Chunks, c.digest)
	}

	d2 := newVMemDB()
	rs, err := NewRestorer(d2)
	symx.Assert(err == nil, "NewRestorer failed")
	symx.Assert(rs.StartRestore(c12Ctx, meta) == nil, "StartRestore failed")

	pending := make([]bool, len(chunks))
	for i := range pending {
		pending[i] = true
	}
	inProgress, finished := true, false
	for step := 0; step < n; step++ {
		idx := symx.Choose(symx.N("idx", step), len(chunks))
		fault := symx.Choose(symx.N("fault", step), 5) // 0 none, 1 NewBatch fails, 2 Commit fails, 3 bytes do not match the digest, 4 another chunk's bytes
		before := len(d2.nodes)
		src := chunks[idx]
		switch fault {
		case 1:
			d2.failNewBatch = true
		case 2:
			d2.failCommit = true
		case 3:
			by := symx.Uint8(symx.N("corruptBy", step))
			symx.Assume(by != 0)
			b := append([]byte(nil), src.bytes...)
			b[len(b)-1] ^= by
			src = &c12Chunk{bytes: b}
		case 4:
			// the (well-formed, verifiable) bytes of another chunk of the same checkpoint delivered under this index
			symx.Assume(len(chunks) > 1)
			src = chunks[(idx+1)%len(chunks)]
			symx.Assume(src.digest != chunks[idx].digest)
		}
		done, err := rs.RestoreChunk(c12Ctx, uint64(idx), src.reader())
		d2.failNewBatch, d2.failCommit = false, false

		switch {
		case !inProgress:
			symx.Assert(errors.Is(err, ErrNoRestoreInProgress) && !done, "chunk accepted although no restore is in progress")
			symx.Assert(len(d2.nodes) == before, "a delivery outside a restore imported nodes")
			symx.Cover("no-restore")
		case !pending[idx]:
			symx.Assert(errors.Is(err, ErrChunkAlreadyRestored) && !done, "duplicate delivery of a restored chunk not refused")
			symx.Assert(len(d2.nodes) == before, "a duplicate delivery imported nodes")
			symx.Cover("duplicate")
		case fault == 4:
			symx.Assert(errors.Is(err, ErrChunkCorrupted) && !done, "another chunk's bytes delivered under this index were not rejected as corrupted")
			symx.Assert(len(d2.nodes) == before, "a chunk delivered under the wrong index made nodes visible")
			symx.Cover("wrong-chunk")
		case fault == 3:
			symx.Assert(errors.Is(err, ErrChunkCorrupted) && !done, "chunk with bytes not matching its digest was not rejected as corrupted")
			symx.Assert(len(d2.nodes) == before, "a corrupted chunk made nodes visible")
			symx.Cover("corrupted")
		case idx == bad && fault == 0:
			symx.Assert(errors.Is(err, ErrChunkProofVerificationFailed) && !done, "chunk that does not belong to the root was not rejected")
			symx.Assert(len(d2.nodes) == before, "a chunk with a failing proof made nodes visible")
			inProgress = false // the restore is aborted
			symx.Cover("proof-failed")
		case fault != 0:
			// (for the bad chunk a transient failure may hit before or after the proof check)
			symx.Assert(err != nil && !done, "a delivery that failed in the node database was reported as restored")
			symx.Assert(len(d2.nodes) == before, "a failed delivery made nodes visible")
			if errors.Is(err, ErrChunkProofVerificationFailed) {
				inProgress = false
			}
			symx.Cover("transient")
		default:
			symx.Assert(err == nil, "a good pending chunk was rejected")
			pending[idx] = false
			left := 0
			for _, p := range pending {
				if p {
					left++
				}
			}
			symx.Assert(done == (left == 0), "done reported at the wrong time")
			if done {
				inProgress, finished = false, true
			}
			symx.Cover("restored")
		}
	}
	if finished {
		for _, nd := range d.nodes {
			symx.Assert(d2.lookup(nd.h) != nil, "restore reported done but a node of the checkpointed tree is missing")
		}
		for _, nd := range d2.nodes {
			symx.Assert(d.lookup(nd.h) != nil, "restore produced a node that is not in the checkpointed tree")
		}
		t2 := mkvs.NewWithRoot(nil, d2, root)
		for _, e := range contents {
			v, err := t2.Get(c12Ctx, e.k)
			symx.Assert(err == nil && bytes.Equal(v, e.v), "restored tree returns a different value")
		}
		symx.Cover("finished")
	}
	symx.Cover("end")
}
