package checkpoint

// C12 (kernel): for any tree contents, chunk size and chunker thread count,
// the chunks produced by the sequential and the parallel chunker each verify
// against the root and, restored into an empty node database, reproduce exactly
// the checkpointed nodes and contents; the same inputs give the same chunks.
//
// The real writeChunk / restoreChunk run on byte buffers in both modes; under the
// engine the third-party stream codecs they use are modelled (snappy = identity,
// streaming CBOR of byte strings = injective length-prefixed records, see
// engine/stream.go), everything else (digest builder, order of the digest /
// decode / proof checks, import) is the real code.

import (
	"bytes"
	"context"
	"io"

	"github.com/oasisprotocol/oasis-core/go/common"
	"github.com/oasisprotocol/oasis-core/go/common/crypto/hash"
	symx "github.com/oasisprotocol/oasis-core/go/internal/verifsymx"
	"github.com/oasisprotocol/oasis-core/go/storage/mkvs"
	db "github.com/oasisprotocol/oasis-core/go/storage/mkvs/db/api"
	"github.com/oasisprotocol/oasis-core/go/storage/mkvs/node"
)

var c12Ctx = context.Background()
var c12Ns common.Namespace

// vSink is the writer handed to the chunkers.
type vSink struct {
	buf    bytes.Buffer
	closed bool
}

func (s *vSink) Write(p []byte) (int, error) { return s.buf.Write(p) }
func (s *vSink) Close() error                 { s.closed = true; return nil }

type vSinkFactory struct{ sinks []*vSink }

func (f *vSinkFactory) next() (int, io.WriteCloser, error) {
	s := &vSink{}
	f.sinks = append(f.sinks, s)
	return len(f.sinks) - 1, s, nil
}

func c12Restore(ndb db.NodeDB, root node.Root, idx int, digest hash.Hash, s *vSink) error {
	meta := &ChunkMetadata{Version: 1, Root: root, Index: uint64(idx), Digest: digest}
	return restoreChunk(c12Ctx, ndb, meta, bytes.NewReader(s.buf.Bytes()))
}

func c12Key(i int) []byte {
	l := symx.Cfg("klen", 1)
	return symx.Bytes(symx.N("key", i), l)
}

// VerifC12Checkpoint: k symbolic entries; sequential (threads=0) or parallel chunker.
func VerifC12Checkpoint() {
	k := symx.Cfg("k", 3)
	d := newVMemDB()
	t := mkvs.New(nil, d, node.RootTypeState)
	type kv struct{ k, v []byte }
	var contents []kv
	if base := symx.Cfg("chain", 0); base > 0 {
		// a deep prefix chain "a", "aa", "aaa", ... of symbolic length base..base+span-1 with symbolic values
		k = base + symx.Choose("chainLen", symx.Cfg("chainspan", 1))
	}
	for i := 0; i < k; i++ {
		var key []byte
		val := symx.Bytes(symx.N("val", i), 1)
		if symx.Cfg("chain", 0) > 0 {
			key = bytes.Repeat([]byte{'a'}, i+1)
		} else {
			key = c12Key(i)
		}
		symx.Assert(t.Insert(c12Ctx, key, val) == nil, "Insert failed")
		dup := false
		for j := range contents {
			if bytes.Equal(contents[j].k, key) {
				contents[j].v = val
				dup = true
			}
		}
		if !dup {
			contents = append(contents, kv{key, val})
		}
	}
	_, h, err := t.Commit(c12Ctx, c12Ns, 1)
	symx.Assert(err == nil, "Commit failed")
	root := node.Root{Namespace: c12Ns, Version: 1, Type: node.RootTypeState, Hash: h}

	chunkSize := uint64(1 + symx.Choose("chunkSize", symx.Cfg("maxChunk", 4))*symx.Cfg("chunkStep", 40))
	threads := uint16(symx.Cfg("threads", 0))
	mk := func() chunker {
		if threads == 0 {
			return &seqChunker{ndb: d, root: root, chunkSize: chunkSize}
		}
		return &parallelChunker{ndb: d, root: root, chunkSize: chunkSize, threads: threads}
	}
	wf := &vSinkFactory{}
	digests, err := mk().chunk(c12Ctx, wf)
	symx.Assert(err == nil, "chunking failed")
	symx.Assert(len(digests) == len(wf.sinks) && len(digests) >= 1, "number of digests differs from the number of chunks written")
	// determinism: same inputs, same chunk list
	wf2 := &vSinkFactory{}
	digests2, err := mk().chunk(c12Ctx, wf2)
	symx.Assert(err == nil && len(digests2) == len(digests), "second run produced a different number of chunks")
	for i := range digests {
		symx.Assert(digests[i] == digests2[i], "same root and parameters produced different chunk digests")
	}
	if len(digests) > 1 {
		symx.Cover("multi-chunk")
	}

	// restore into an empty database, in forward or reverse order
	d2 := newVMemDB()
	order := make([]int, len(digests))
	for i := range order {
		order[i] = i
		if symx.Cfg("reverse", 0) == 1 {
			order[i] = len(digests) - 1 - i
		}
	}
	for _, i := range order {
		symx.Assert(wf.sinks[i].closed, "chunk writer not closed")
		symx.Assert(c12Restore(d2, root, i, digests[i], wf.sinks[i]) == nil, "a chunk of the checkpoint does not restore")
	}
	// exactly the checkpointed nodes
	for _, n := range d.nodes {
		symx.Assert(d2.lookup(n.h) != nil, "a node of the checkpointed tree was not restored")
	}
	for _, n := range d2.nodes {
		symx.Assert(d.lookup(n.h) != nil, "restore produced a node that is not in the checkpointed tree")
	}
	// exactly the checkpointed contents, readable from the restored database
	t2 := mkvs.NewWithRoot(nil, d2, root)
	for _, e := range contents {
		v, err := t2.Get(c12Ctx, e.k)
		symx.Assert(err == nil && bytes.Equal(v, e.v), "restored tree returns a different value")
	}
	n := 0
	it := t2.NewIterator(c12Ctx)
	for it.Rewind(); it.Valid(); it.Next() {
		n++
	}
	symx.Assert(it.Err() == nil && n == len(contents), "restored tree has a different number of keys")
	it.Close()
	_, h2, err := t2.Commit(c12Ctx, c12Ns, 1, mkvs.NoPersist())
	symx.Assert(err == nil && h2 == root.Hash, "restored tree has a different root")
	symx.Cover("end")
}
