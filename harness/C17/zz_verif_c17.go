package state

// C17 (index kernel): every registered node is found under each of its current
// keys, no key maps to two nodes, stale keys map to nothing - after a node
// update that changes any subset of its P2P / TLS / VRF keys to any keys the
// registration rules admit (pairwise distinct, not another node's).

import (
	"github.com/oasisprotocol/oasis-core/go/common/cbor"
	"github.com/oasisprotocol/oasis-core/go/common/crypto/signature"
	"github.com/oasisprotocol/oasis-core/go/common/node"
	abciAPI "github.com/oasisprotocol/oasis-core/go/consensus/cometbft/api"
	tmcrypto "github.com/oasisprotocol/oasis-core/go/consensus/cometbft/crypto"
	symx "github.com/oasisprotocol/oasis-core/go/internal/verifsymx"
	registry "github.com/oasisprotocol/oasis-core/go/registry/api"
)

func c17Key(b byte) signature.PublicKey {
	var pk signature.PublicKey
	pk[0] = b
	pk[31] = 0x17
	return pk
}

func c17Signed(n *node.Node) *node.MultiSignedNode {
	return &node.MultiSignedNode{MultiSigned: signature.MultiSigned{Blob: cbor.Marshal(n)}}
}

func c17SubKeys(n *node.Node) []signature.PublicKey {
	return []signature.PublicKey{n.Consensus.ID, n.P2P.ID, n.TLS.PubKey, n.VRF.ID}
}

// c17Admissible is what registry.VerifyRegisterNodeArgs enforces on sub-keys.
func c17Admissible(n *node.Node, others []*node.Node) bool {
	ks := c17SubKeys(n)
	for i := range ks {
		for j := i + 1; j < len(ks); j++ {
			if ks[i] == ks[j] {
				return false
			}
		}
		for _, o := range others {
			for _, ok := range c17SubKeys(o) {
				if ks[i] == ok {
					return false
				}
			}
		}
	}
	return true
}

func c17CheckIndex(st *MutableState, ctx *abciAPI.Context, nodes []*node.Node, stale []signature.PublicKey) {
	for _, n := range nodes {
		for _, k := range c17SubKeys(n) {
			got, err := st.NodeBySubKey(ctx, k)
			symx.Assert(err == nil && got != nil, "registered node not found under one of its current keys")
			symx.Assert(got.ID == n.ID, "a key maps to a different node")
		}
		addr := []byte(tmcrypto.PublicKeyToCometBFT(&n.Consensus.ID).Address())
		got, err := st.NodeByConsensusAddress(ctx, addr)
		symx.Assert(err == nil && got != nil && got.ID == n.ID, "registered node not found under its consensus address")
		byID, err := st.Node(ctx, n.ID)
		symx.Assert(err == nil && byID.P2P.ID == n.P2P.ID && byID.VRF.ID == n.VRF.ID && byID.TLS.PubKey == n.TLS.PubKey, "stored descriptor differs from the registered one")
	}
	for _, k := range stale {
		inUse := false
		for _, n := range nodes {
			for _, cur := range c17SubKeys(n) {
				if cur == k {
					inUse = true
				}
			}
		}
		if !inUse {
			_, err := st.NodeBySubKey(ctx, k)
			symx.Assert(err == registry.ErrNoSuchNode, "a key that no registered node uses still maps to a node")
		}
	}
}

// VerifC17NodeUpdate: node 1 (and optionally node 2) registered; node 1 updates its keys.
func VerifC17NodeUpdate() {
	appState := abciAPI.NewMockApplicationState(&abciAPI.MockApplicationStateConfig{})
	ctx := appState.NewContext(abciAPI.ContextDeliverTx)
	st := NewMutableState(ctx.State())

	n1 := &node.Node{Versioned: cbor.NewVersioned(node.LatestNodeDescriptorVersion), ID: c17Key(1), EntityID: c17Key(100), Roles: node.RoleValidator}
	n1.Consensus.ID, n1.P2P.ID, n1.TLS.PubKey, n1.VRF.ID = c17Key(2), c17Key(3), c17Key(4), c17Key(5)
	var others []*node.Node
	if symx.Cfg("two", 1) == 1 {
		n2 := &node.Node{Versioned: cbor.NewVersioned(node.LatestNodeDescriptorVersion), ID: c17Key(11), EntityID: c17Key(100), Roles: node.RoleValidator}
		n2.Consensus.ID, n2.P2P.ID, n2.TLS.PubKey, n2.VRF.ID = c17Key(12), c17Key(13), c17Key(14), c17Key(15)
		symx.Assert(st.SetNode(ctx, nil, n2, c17Signed(n2)) == nil, "SetNode failed")
		others = append(others, n2)
	}
	symx.Assert(st.SetNode(ctx, nil, n1, c17Signed(n1)) == nil, "SetNode failed")
	c17CheckIndex(st, ctx, append([]*node.Node{n1}, others...), nil)

	// candidate keys for the update: own old keys, fresh keys, the other node's keys
	pool := []signature.PublicKey{c17Key(3), c17Key(4), c17Key(5), c17Key(21), c17Key(22), c17Key(23), c17Key(13)}
	upd := *n1
	upd.P2P.ID = pool[symx.Choose("newP2P", len(pool))]
	upd.TLS.PubKey = pool[symx.Choose("newTLS", len(pool))]
	upd.VRF.ID = pool[symx.Choose("newVRF", len(pool))]
	if !c17Admissible(&upd, others) {
		symx.Cover("update-inadmissible")
		return
	}
	symx.Cover("update-admissible")
	vnuErr := registry.VerifyNodeUpdate(ctx, ctx.Logger(), n1, &upd, st, 0)
	symx.Observe("vnuErr", vnuErr)
	symx.Assert(vnuErr == nil, "admissible key rotation refused by VerifyNodeUpdate")
	symx.Assert(st.SetNode(ctx, n1, &upd, c17Signed(&upd)) == nil, "SetNode failed")
	c17CheckIndex(st, ctx, append([]*node.Node{&upd}, others...), c17SubKeys(n1))

	// removal leaves nothing behind
	symx.Assert(st.RemoveNode(ctx, &upd) == nil, "RemoveNode failed")
	for _, k := range append(c17SubKeys(&upd), c17SubKeys(n1)...) {
		_, err := st.NodeBySubKey(ctx, k)
		symx.Assert(err == registry.ErrNoSuchNode, "key of a removed node still maps to a node")
	}
	c17CheckIndex(st, ctx, others, nil)
	symx.Cover("end")
}
