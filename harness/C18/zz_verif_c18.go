package pcs

// C18 (policy / time kernels): collateral is accepted only inside its validity
// window and only if the TCB status and the enclave identity satisfy the policy.
// The collateral structs are built directly (JSON / signature / X.509 layers
// are outside this check).

import (
	"encoding/hex"
	"time"

	symx "github.com/oasisprotocol/oasis-core/go/internal/verifsymx"
)

const c18Issue = "2022-12-19T09:40:10Z"

func c18Status(name string) TCBStatus {
	v := symx.Uint8(name)
	symx.Assume(v < 8)
	return TCBStatus(v)
}

func c18Uint16(name string) uint16 {
	b := symx.Nat(name)
	symx.Assume(b.IsUint64())
	v := b.Uint64()
	symx.Assume(v <= 65535)
	return uint16(v)
}

func c18Times() (issue time.Time, ts time.Time, off int64) {
	issue, err := time.Parse(TimestampFormat, c18Issue)
	symx.Assert(err == nil, "time.Parse failed")
	// verification time = issue date + symbolic offset in seconds (either direction)
	offBig := symx.BigInt("tsOffsetSeconds") // kept as a mathematical integer by the engine
	symx.Assume(offBig.IsInt64())
	off = offBig.Int64()
	symx.Assume(off > -4000000000 && off < 4000000000)
	ts = time.Unix(issue.Unix()+off, 0).UTC()
	return
}

// VerifC18TCBInfoValidate: TCBInfo.validate (cfg qe=1: QEIdentity.validate).
func VerifC18TCBInfoValidate() {
	_, ts, off := c18Times()
	policy := &QuotePolicy{
		TCBValidityPeriod:          c18Uint16("validityDays"),
		MinTCBEvaluationDataNumber: symx.Uint32("minEvalNum"),
	}
	tee := []TeeType{TeeTypeSGX, TeeTypeTDX}[symx.Choose("tee", 2)]
	idSel := symx.Choose("id", 3)
	version := int(symx.Int64("version"))
	evalNum := symx.Uint32("evalNum")
	var err error
	var idOK bool
	var wantVersion int
	if symx.Cfg("qe", 0) == 1 {
		qe := &QEIdentity{ID: []string{qeIDSgx, qeIDTdx, "other"}[idSel], Version: version, IssueDate: c18Issue, NextUpdate: "2023-01-18T09:40:10Z", TCBEvaluationDataNumber: evalNum}
		err = qe.validate(tee, ts, policy)
		idOK = (tee == TeeTypeSGX && idSel == 0) || (tee == TeeTypeTDX && idSel == 1)
		wantVersion = requiredQEIdentityVersion
	} else {
		fm := []string{"00606A000000", "00906ED50000"}[symx.Choose("fmspc", 2)]
		switch symx.Choose("lists", 3) {
		case 1:
			policy.FMSPCBlacklist = []string{"00606A000000"}
		case 2:
			policy.FMSPCWhitelist = []string{"00606A000000"}
		}
		ti := &TCBInfo{ID: []string{tcbInfoSGX, tcbInfoTDX, "other"}[idSel], Version: version, IssueDate: c18Issue, NextUpdate: "2023-01-18T09:40:10Z", FMSPC: fm, TCBEvaluationDataNumber: evalNum}
		err = ti.validate(tee, ts, policy)
		idOK = (tee == TeeTypeSGX && idSel == 0) || (tee == TeeTypeTDX && idSel == 1)
		wantVersion = requiredTCBInfoVersion
		if err == nil {
			black := len(policy.FMSPCBlacklist) > 0 && fm == policy.FMSPCBlacklist[0]
			white := len(policy.FMSPCWhitelist) == 0 || fm == policy.FMSPCWhitelist[0]
			symx.Assert(!black && white, "collateral for a platform the policy excludes accepted")
		}
	}
	if err != nil {
		symx.Cover("rejected")
		// completeness: everything in order => accepted
		inWindow := off >= 0 && off <= int64(policy.TCBValidityPeriod)*86400
		if idOK && version == wantVersion && inWindow && evalNum >= policy.MinTCBEvaluationDataNumber && symx.Cfg("qe", 0) == 1 {
			symx.Assert(false, "valid collateral rejected")
		}
		return
	}
	symx.Cover("accepted")
	symx.Assert(idOK, "collateral of the wrong kind accepted")
	symx.Assert(version == wantVersion, "collateral of an unsupported version accepted")
	symx.Assert(off >= 0, "collateral accepted before its issue date")
	symx.Assert(off <= int64(policy.TCBValidityPeriod)*86400, "expired collateral accepted")
	symx.Assert(evalNum >= policy.MinTCBEvaluationDataNumber, "collateral below the minimum TCB evaluation data number accepted")
}

// VerifC18TCBLevel: validateTCBLevel picks the first matching level and accepts
// only the allowed statuses (SGX); for TDX the module identity level must be up to date.
func VerifC18TCBLevel() {
	nl := symx.Cfg("levels", 2)
	tdx := symx.Cfg("tdx", 0) == 1
	ti := &TCBInfo{ID: tcbInfoSGX}
	if tdx {
		ti.ID = tcbInfoTDX
	}
	for i := 0; i < nl; i++ {
		var l TCBLevel
		l.TCB.PCESVN = symx.Uint16(symx.N("lvlPce", i))
		l.TCB.SGXComponents[0].SVN = int32(symx.Uint8(symx.N("lvlSvn", i)))
		if tdx {
			l.TCB.TDXComponents[2].SVN = int32(symx.Uint8(symx.N("lvlTdx2_", i)))
			l.TCB.TDXComponents[0].SVN = int32(symx.Uint8(symx.N("lvlTdx0_", i)))
		}
		l.Status = c18Status(symx.N("lvlStatus", i))
		ti.TCBLevels = append(ti.TCBLevels, l)
	}
	var sgxSvn [16]int32
	sgxSvn[0] = int32(symx.Uint8("svn0"))
	pcesvn := symx.Uint16("pcesvn")
	var tdxSvn *[16]byte
	modVer := 0
	var modLevels []EnclaveTCBLevel
	if tdx {
		var t [16]byte
		t[0] = symx.Uint8("tdx0")
		modVer = symx.Choose("tdxModuleVersion", 3)
		t[1] = byte(modVer)
		t[2] = symx.Uint8("tdx2")
		tdxSvn = &t
		for j := 0; j < 2; j++ {
			var ml EnclaveTCBLevel
			ml.TCB.ISVSVN = uint16(symx.Uint8(symx.N("modSvn", j)))
			ml.Status = c18Status(symx.N("modStatus", j))
			modLevels = append(modLevels, ml)
		}
		ti.TDXModuleIdentities = []TDXModuleIdentity{{ID: "TDX_01", TCBLevels: modLevels}}
	}
	err := ti.validateTCBLevel(sgxSvn, tdxSvn, pcesvn)
	// reference: first matching platform level
	match := -1
	for i := 0; i < nl && match < 0; i++ {
		l := &ti.TCBLevels[i]
		ok := sgxSvn[0] >= l.TCB.SGXComponents[0].SVN && pcesvn >= l.TCB.PCESVN
		if ok && tdx {
			if modVer == 0 {
				ok = int32(tdxSvn[0]) >= l.TCB.TDXComponents[0].SVN
			}
			ok = ok && int32(tdxSvn[2]) >= l.TCB.TDXComponents[2].SVN
		}
		if ok {
			match = i
		}
	}
	if err == nil {
		symx.Cover("accepted")
		symx.Assert(match >= 0, "accepted without any matching TCB level")
		st := ti.TCBLevels[match].Status
		symx.Assert(st == StatusUpToDate || st == StatusSWHardeningNeeded, "a TCB status the policy disallows was accepted")
		if tdx && modVer >= 1 {
			symx.Assert(modVer == 1, "accepted for a TDX module version without an identity entry")
			mm := -1
			for j := range modLevels {
				if mm < 0 && modLevels[j].TCB.ISVSVN <= uint16(tdxSvn[0]) {
					mm = j
				}
			}
			symx.Assert(mm >= 0 && modLevels[mm].Status == StatusUpToDate, "TDX module TCB level that is not up to date accepted")
			symx.Cover("accepted-tdx-module")
		}
	} else {
		symx.Cover("rejected")
	}
}

// VerifC18QEVerify: QEIdentity.verify binds the QE report to the identity.
func VerifC18QEVerify() {
	var rep SgxReport
	copy(rep.mrSigner[:], symx.Bytes("mrsigner", 32))
	rep.isvProdID = symx.Uint16("prodid")
	rep.isvSvn = symx.Uint16("isvsvn")
	rep.miscSelect = symx.Uint32("miscselect")
	rep.attributes.Flags = 0
	rep.attributes.Xfrm = symx.Uint64("xfrm")
	want := make([]byte, 32)
	want[0], want[31] = 0x8c, 0x4f
	qe := &QEIdentity{
		MRSIGNER: hex.EncodeToString(want), ISVProdID: 1,
		MiscSelect: "00000000", MiscSelectMask: "FFFFFFFF",
		Attributes: "00000000000000000000000000000000", AttributesMask: "0000000000000000FF00000000000000",
	}
	for j := 0; j < 2; j++ {
		var l EnclaveTCBLevel
		l.TCB.ISVSVN = uint16(symx.Uint8(symx.N("qeSvn", j)))
		l.Status = c18Status(symx.N("qeStatus", j))
		qe.TCBLevels = append(qe.TCBLevels, l)
	}
	err := qe.verify(&rep)
	if err != nil {
		symx.Cover("rejected")
		return
	}
	symx.Cover("accepted")
	for i := range want {
		symx.Assert(rep.mrSigner[i] == want[i], "QE report with another MRSIGNER accepted")
	}
	symx.Assert(rep.isvProdID == 1, "QE report with another product id accepted")
	symx.Assert(rep.miscSelect == 0, "QE report with masked miscselect bits set accepted")
	symx.Assert(rep.attributes.Xfrm&0xff == 0, "QE report with masked attribute bits set accepted")
	mm := -1
	for j := range qe.TCBLevels {
		if mm < 0 && qe.TCBLevels[j].TCB.ISVSVN <= rep.isvSvn {
			mm = j
		}
	}
	symx.Assert(mm >= 0 && qe.TCBLevels[mm].Status == StatusUpToDate, "QE TCB level that is not up to date accepted")
}

// VerifC18TdxPolicy: TdxQuotePolicy.Verify accepts a TD report only if its TDX module is one the
// policy allows: some allowed entry whose signer equals the report's MRSIGNERSEAM and whose MRSEAM
// (when the entry pins one) equals the report's MRSEAM; with an empty list only Intel-signed
// modules (all-zero signer).
func VerifC18TdxPolicy() {
	var rep TdReport
	copy(rep.mrSeam[:], symx.Bytes("mrSeam", 48))
	copy(rep.mrSignerSeam[:], symx.Bytes("mrSignerSeam", 48))
	n := symx.Choose("entries", 3)
	tp := &TdxQuotePolicy{}
	for j := 0; j < n; j++ {
		var mp TdxModulePolicy
		copy(mp.MrSignerSeam[:], symx.Bytes(symx.N("allowedSigner", j), 48))
		if symx.Bool(symx.N("pinsMrSeam", j)) {
			var m [48]byte
			copy(m[:], symx.Bytes(symx.N("allowedMrSeam", j), 48))
			mp.MrSeam = &m
		}
		tp.AllowedTdxModules = append(tp.AllowedTdxModules, mp)
	}
	err := tp.Verify(&rep)
	allowed := false
	for j := range tp.AllowedTdxModules {
		mp := &tp.AllowedTdxModules[j]
		if mp.MrSignerSeam == rep.mrSignerSeam && (mp.MrSeam == nil || *mp.MrSeam == rep.mrSeam) {
			allowed = true
		}
	}
	if n == 0 {
		allowed = rep.mrSignerSeam == [48]byte{}
	}
	if err == nil {
		symx.Cover("accepted")
		symx.Assert(allowed, "TD report with a TDX module the policy does not allow was accepted")
	} else {
		symx.Cover("rejected")
		symx.Assert(!allowed, "TD report with an allowed TDX module rejected")
	}
	symx.Cover("end")
}
