package pcs

// C16 (attestation quote parser): arbitrary bytes are decoded or rejected, never panic.

import (
	symx "github.com/oasisprotocol/oasis-core/go/internal/verifsymx"
)

// VerifC16Quote: a fully symbolic buffer whose length is base..base+span.
func VerifC16Quote() {
	n := symx.Cfg("base", 430) + symx.Choose("len", symx.Cfg("span", 16))
	data := symx.Bytes("q", n)
	if symx.Cfg("tdx", 0) == 1 {
		// steer into the TDX branch: version 4, TEE type TDX, Intel QE vendor id
		symx.Assume(data[0] == 4 && data[1] == 0 && data[4] == 0x81 && data[5] == 0 && data[6] == 0 && data[7] == 0)
		for i, b := range QEVendorID_Intel {
			symx.Assume(data[12+i] == b)
		}
	}
	var q Quote
	_, err := q.UnmarshalBinaryWithTrailing(data, symx.Bool("allowTrailing")) // any panic is a violation
	if err != nil {
		symx.Cover("rejected")
		return
	}
	symx.Cover("accepted")
	// accessors of an accepted quote must be safe
	_ = q.Header().Version()
	_ = q.Header().TeeType()
	_ = q.Signature().AttestationKeyType()
}
