package pcs

// C18 (binding): a quote is accepted only as signed. The repository's own SGX
// test vector (a real DCAP quote with its PCK chain and collateral, valid at the
// test's verification time) is altered in one byte - any byte of the signed or
// bound regions, any non-zero difference - and run through the real
// Quote.UnmarshalBinary and Quote.Verify; every such quote must be rejected, and
// the unaltered quote must be accepted with the vector's enclave identity.
//
// Under the engine the position and the difference are symbolic (one query covers
// a whole region) and the cryptographic primitives are replaced by harness
// functions (redirects): ECDSA verification accepts exactly the (key, digest,
// signature) triples of the honest vector, the PCK chain verifies exactly for the
// vector's chain bytes, SHA-256 is the engine's injective model; the TCB bundle
// evaluation (covered by the policy kernels) is skipped. Natively the real
// crypto/x509, crypto/ecdsa and the real collateral run.

import (
	"crypto/ecdsa"
	"crypto/elliptic"
	"crypto/rand"
	"crypto/sha256"
	"crypto/x509"
	"encoding/json"
	"fmt"
	"os"
	"time"

	symx "github.com/oasisprotocol/oasis-core/go/internal/verifsymx"
)

type c18Honest struct {
	raw                        []byte
	attPK, sig, qeSig, qeDgst  []byte
	quoteDgst                  []byte
	chain                      []byte
	authLen                    int
}

var (
	c18H       *c18Honest
	c18PCKKey  = &ecdsa.PublicKey{}
	c18Parsed  = map[*ecdsa.PublicKey][]byte{}
)

const (
	c18OffBody   = quoteHeaderLen
	c18OffSigLen = quoteHeaderLen + reportBodySgxLen
	c18OffSig    = c18OffSigLen + 4
	c18OffAttPK  = c18OffSig + 64
	c18OffQE     = c18OffAttPK + 64
	c18OffQESig  = c18OffQE + reportBodySgxLen
	c18OffAuthSz = c18OffQESig + 64
	c18OffAuth   = c18OffAuthSz + 2
)

func c18LoadHonest() *c18Honest {
	raw, err := os.ReadFile("testdata/quote_v3_ecdsa_p256_pck_chain.bin")
	symx.Assert(err == nil, "test vector missing")
	h := &c18Honest{raw: raw}
	h.authLen = int(raw[c18OffAuthSz]) | int(raw[c18OffAuthSz+1])<<8
	h.sig = raw[c18OffSig : c18OffSig+64]
	h.attPK = raw[c18OffAttPK : c18OffAttPK+64]
	h.qeSig = raw[c18OffQESig : c18OffQESig+64]
	qd := sha256.Sum256(raw[c18OffQE : c18OffQE+reportBodySgxLen])
	h.qeDgst = qd[:]
	d := sha256.Sum256(raw[:c18OffSigLen])
	h.quoteDgst = d[:]
	h.chain = raw[c18OffAuth+h.authLen+6:]
	// the binding of the attestation key: QE report data = SHA-256(attestation key || authentication data) || 0^32
	// (computed here on the honest bytes so that the digest in the vector is known as the image of this input)
	bind := sha256.New()
	bind.Write(h.attPK)
	bind.Write(raw[c18OffAuth : c18OffAuth+h.authLen])
	symx.Assert(string(bind.Sum(nil)) == string(raw[c18OffQE+320:c18OffQE+352]), "test vector: QE report data is not the hash of the attestation key and authentication data")
	return h
}

// ---- harness replacements of the cryptographic primitives (engine only, by redirect) ----

func c18StubChainUnmarshal(cd *CertificationData_PCKCertificateChain, data []byte) error {
	c := &x509.Certificate{Raw: append([]byte(nil), data...)}
	cd.CertificateChain = []*x509.Certificate{c, c, c}
	return nil
}

func c18StubVerifyPCK(qe *CertificationData_QEReport, _ time.Time) (*PCKInfo, error) {
	cd, ok := qe.CertificationData.(*CertificationData_PCKCertificateChain)
	if !ok || len(cd.CertificateChain) != 3 {
		return nil, fmt.Errorf("verif: no PCK chain")
	}
	if string(cd.CertificateChain[0].Raw) != string(c18H.chain) {
		return nil, fmt.Errorf("verif: PCK chain does not verify")
	}
	return &PCKInfo{PublicKey: c18PCKKey, FMSPC: []byte{0, 0x60, 0x6a, 0, 0, 0}}, nil
}

func c18StubParseKey(_ elliptic.Curve, data []byte) (*ecdsa.PublicKey, error) {
	k := &ecdsa.PublicKey{}
	c18Parsed[k] = append([]byte(nil), data...)
	return k, nil
}

func c18StubP256() elliptic.Curve { return nil }

func c18StubSigVerify(ec *SignatureECDSA_P256, pk *ecdsa.PublicKey, dgst []byte) bool {
	if pk == c18PCKKey {
		return string(ec[:]) == string(c18H.qeSig) && string(dgst) == string(c18H.qeDgst)
	}
	kb, ok := c18Parsed[pk]
	if !ok || len(kb) != 65 || kb[0] != 4 {
		return false
	}
	if string(kb[1:]) != string(c18H.attPK) {
		// any other key may be the adversary's own: it can produce a valid signature over anything
		return true
	}
	return string(ec[:]) == string(c18H.sig) && string(dgst) == string(c18H.quoteDgst)
}

func c18StubTCBVerify(*TCBBundle, TeeType, time.Time, *QuotePolicy, []byte, [16]int32, *[16]byte, uint16, *SgxReport) error {
	return nil
}

func c18RealBundle() *TCBBundle {
	if symx.Symbolic() {
		return &TCBBundle{}
	}
	rawTCBInfo, err := os.ReadFile("testdata/tcb_info_v3_fmspc_00606A000000.json")
	symx.Assert(err == nil, "test vector missing")
	rawCerts, err := os.ReadFile("testdata/tcb_info_v3_fmspc_00606A000000_certs.pem")
	symx.Assert(err == nil, "test vector missing")
	rawQEIdentity, err := os.ReadFile("testdata/qe_identity_v2.json")
	symx.Assert(err == nil, "test vector missing")
	var b TCBBundle
	symx.Assert(json.Unmarshal(rawTCBInfo, &b.TCBInfo) == nil && json.Unmarshal(rawQEIdentity, &b.QEIdentity) == nil, "collateral does not parse")
	b.Certificates = rawCerts
	return &b
}

// c18SignWithOwnKey (native replay): a fresh P-256 key replaces the attestation key and signs header || report body.
func c18SignWithOwnKey(raw []byte) {
	key, err := ecdsa.GenerateKey(elliptic.P256(), rand.Reader)
	symx.Assert(err == nil, "key generation failed")
	key.X.FillBytes(raw[c18OffAttPK : c18OffAttPK+32])
	key.Y.FillBytes(raw[c18OffAttPK+32 : c18OffAttPK+64])
	d := sha256.Sum256(raw[:c18OffSigLen])
	r, s, err := ecdsa.Sign(rand.Reader, key, d[:])
	symx.Assert(err == nil, "signing failed")
	r.FillBytes(raw[c18OffSig : c18OffSig+32])
	s.FillBytes(raw[c18OffSig+32 : c18OffSig+64])
}

// VerifC18Binding: cfg region selects the altered region (0 none).
func VerifC18Binding() {
	h := c18LoadHonest()
	c18H = h
	region := symx.Cfg("region", 0)
	var start, n int
	switch region {
	case 1: // quote header
		start, n = 0, quoteHeaderLen
	case 2: // report body (enclave identity, report data)
		start, n = c18OffBody, reportBodySgxLen
	case 3: // quote signature
		start, n = c18OffSig, 64
	case 4: // attestation public key
		start, n = c18OffAttPK, 64
	case 5: // QE report
		start, n = c18OffQE, reportBodySgxLen
	case 6: // QE report signature
		start, n = c18OffQESig, 64
	case 7: // QE authentication data
		start, n = c18OffAuth, h.authLen
	case 8: // report body altered AND the attestation key replaced by the adversary's own key, which signs the altered quote
		start, n = c18OffBody, reportBodySgxLen
	}
	raw := append([]byte(nil), h.raw...)
	if region != 0 {
		off := symx.Uint32("offset")
		symx.Assume(off < uint32(n))
		by := symx.Uint8("difference")
		symx.Assume(by != 0)
		for i := 0; i < n; i++ {
			// branch-free: raw[start+i] ^= by iff i == off
			eq := ((off ^ uint32(i)) - 1) >> 31
			raw[start+i] ^= by & byte(0-eq)
		}
	}
	if region == 8 {
		if symx.Symbolic() {
			// arbitrary key and signature bytes (the signature model accepts any signature under a key that is not the honest one)
			copy(raw[c18OffAttPK:], symx.Bytes("adversaryKey", 64))
			copy(raw[c18OffSig:], symx.Bytes("adversarySig", 64))
		} else {
			c18SignWithOwnKey(raw)
		}
	}
	var q Quote
	if err := q.UnmarshalBinary(raw); err != nil {
		symx.Assert(region != 0, "the honest quote does not parse")
		symx.Cover("rejected-by-parser")
		return
	}
	vq, err := q.Verify(nil, time.Unix(1671497404, 0), c18RealBundle())
	if region == 0 {
		symx.Assert(err == nil, "the honest quote is rejected")
		symx.Assert(vq.Identity.MrEnclave.String() == "68823bc62f409ee33a32ea270cfe45d4b19a6fb3c8570d7bc186cbe062398e8f", "verified identity differs from the quoted one")
		symx.Cover("accepted")
		return
	}
	symx.Assert(err != nil, "a quote altered after signing was accepted")
	symx.Cover("rejected")
}

// ---- validity in time of the collateral signing chain, over a history of two verifications ----

var (
	c18TCBCert  = &x509.Certificate{PublicKey: &ecdsa.PublicKey{}}
	c18RootCert = &x509.Certificate{}
)

// validity of the TCB signing certificate in the repository's test vector
const (
	c18TCBNotBefore = 1526899810 // 2018-05-21T10:50:10Z
	c18TCBNotAfter  = 1747824610 // 2025-05-21T10:50:10Z
)

func c18StubCertFromPEM(data []byte) (*x509.Certificate, []byte, error) {
	if len(data) == 0 {
		return nil, nil, nil
	}
	switch data[0] {
	case 'T':
		return c18TCBCert, data[1:], nil
	case 'R':
		return c18RootCert, data[1:], nil
	}
	return nil, nil, fmt.Errorf("verif: not a certificate")
}

func c18StubCertVerify(c *x509.Certificate, opts x509.VerifyOptions) ([][]*x509.Certificate, error) {
	if c != c18TCBCert {
		return nil, fmt.Errorf("verif: certificate signed by unknown authority")
	}
	if opts.CurrentTime.Before(c.NotBefore) || opts.CurrentTime.After(c.NotAfter) {
		return nil, fmt.Errorf("verif: certificate has expired or is not yet valid")
	}
	return [][]*x509.Certificate{{c, c18RootCert}}, nil
}

func c18StubCertEqual(c, o *x509.Certificate) bool { return c == o }

// VerifC18BundleTime: the collateral signing key is obtained (TCBBundle.getPublicKey) twice, at two
// arbitrary instants; each call succeeds exactly when its own instant lies inside the validity of the
// signing certificate - whatever was verified before.
func VerifC18BundleTime() {
	bnd := &TCBBundle{Certificates: []byte("TR")}
	if symx.Symbolic() {
		IntelTrustRoots = nil // (built from PEM by the package initialiser; chain verification is a harness function under the engine)
	}
	c18TCBCert.NotBefore, c18TCBCert.NotAfter = time.Unix(c18TCBNotBefore, 0).UTC(), time.Unix(c18TCBNotAfter, 0).UTC()
	if !symx.Symbolic() {
		raw, err := os.ReadFile("testdata/tcb_info_v3_fmspc_00606A000000_certs.pem")
		symx.Assert(err == nil, "test vector missing")
		bnd.Certificates = raw
		cert, _, err := CertFromPEM(raw)
		symx.Assert(err == nil && cert.NotBefore.Unix() == c18TCBNotBefore && cert.NotAfter.Unix() == c18TCBNotAfter, "test vector: validity of the TCB signing certificate changed")
	}
	var offs [2]int64
	for i := range offs {
		b := symx.BigInt(symx.N("secondsAfterExpiry", i))
		symx.Assume(b.IsInt64())
		offs[i] = b.Int64()
		symx.Assume(offs[i] > -300000000 && offs[i] < 300000000)
	}
	for i, off := range offs {
		_, err := bnd.getPublicKey(time.Unix(c18TCBNotAfter+off, 0).UTC())
		valid := off <= 0 && off >= c18TCBNotBefore-c18TCBNotAfter
		if err == nil {
			symx.Assert(valid, "collateral signing chain accepted outside its validity period")
			symx.Cover(symx.N("accepted", i))
		} else {
			symx.Assert(!valid, "collateral signing chain rejected inside its validity period")
			symx.Cover(symx.N("rejected", i))
		}
	}
	symx.Cover("end")
}
