package api

// C17 (authority and key uniqueness at the admission check): the real
// VerifyRegisterNodeArgs run on a multi-signed node descriptor built by the
// harness, against a registry that already holds another node X.
//
// Symbolic: which keys the new descriptor uses (its own fresh keys, or one slot
// replaced by another of its own keys, by its identity key, or by a key of X),
// which signature is missing / forged / superfluous, entity membership, the
// expirations of both nodes and the current epoch.

import (
	"context"
	"fmt"
	"time"

	beacon "github.com/oasisprotocol/oasis-core/go/beacon/api"
	"github.com/oasisprotocol/oasis-core/go/common/cbor"
	"github.com/oasisprotocol/oasis-core/go/common/crypto/signature"
	memorySigner "github.com/oasisprotocol/oasis-core/go/common/crypto/signature/signers/memory"
	"github.com/oasisprotocol/oasis-core/go/common/entity"
	"github.com/oasisprotocol/oasis-core/go/common/logging"
	"github.com/oasisprotocol/oasis-core/go/common/node"
	symx "github.com/oasisprotocol/oasis-core/go/internal/verifsymx"
)

// c17Keys: key i of the harness. Natively real key pairs; under the engine
// distinct concrete public keys (signatures come from symx.HonestSignature).
type c17Keys struct {
	pks     []signature.PublicKey
	signers []signature.Signer
}

func c17NewKeys(n int) *c17Keys {
	k := &c17Keys{}
	for i := 0; i < n; i++ {
		if symx.Symbolic() {
			var pk signature.PublicKey
			pk[0], pk[31] = byte(i+1), 0x77
			k.pks = append(k.pks, pk)
			k.signers = append(k.signers, nil)
		} else {
			s := memorySigner.NewTestSigner(fmt.Sprintf("verif C17 key %d", i))
			k.pks = append(k.pks, s.Public())
			k.signers = append(k.signers, s)
		}
	}
	return k
}

// sign returns key i's signature over blob under the register-node context.
func (k *c17Keys) sign(i int, sigCtx signature.Context, blob []byte) signature.Signature {
	var out signature.Signature
	out.PublicKey = k.pks[i]
	if symx.Symbolic() {
		msg, err := signature.PrepareSignerMessage(sigCtx, blob)
		symx.Assert(err == nil, "PrepareSignerMessage failed")
		copy(out.Signature[:], symx.HonestSignature(k.pks[i][:], msg))
		return out
	}
	s, err := signature.Sign(k.signers[i], sigCtx, blob)
	symx.Assert(err == nil, "signing failed")
	return *s
}

// c17Lookup is a registry holding exactly one node.
type c17Lookup struct{ x *node.Node }

func (l *c17Lookup) NodeBySubKey(_ context.Context, key signature.PublicKey) (*node.Node, error) {
	if l.x != nil && (key.Equal(l.x.Consensus.ID) || key.Equal(l.x.P2P.ID) || key.Equal(l.x.TLS.PubKey) || key.Equal(l.x.VRF.ID)) {
		return l.x, nil
	}
	return nil, ErrNoSuchNode
}

func (l *c17Lookup) Nodes(context.Context) ([]*node.Node, error) {
	if l.x == nil {
		return nil, nil
	}
	return []*node.Node{l.x}, nil
}

func (l *c17Lookup) GetEntityNodes(_ context.Context, id signature.PublicKey) ([]*node.Node, error) {
	if l.x != nil && l.x.EntityID.Equal(id) {
		return []*node.Node{l.x}, nil
	}
	return nil, nil
}

func c17Descriptor(id, ent signature.PublicKey, sub [4]signature.PublicKey, exp uint64) *node.Node {
	addr := node.Address{IP: []byte{10, 0, 0, 1}, Port: 26656}
	n := &node.Node{
		Versioned:  cbor.NewVersioned(node.LatestNodeDescriptorVersion),
		ID:         id,
		EntityID:   ent,
		Expiration: beacon.EpochTime(exp),
		Roles:      node.RoleValidator,
	}
	n.Consensus.ID = sub[0]
	n.Consensus.Addresses = []node.ConsensusAddress{{ID: sub[1], Address: addr}}
	n.P2P.ID = sub[1]
	n.P2P.Addresses = []node.Address{addr}
	n.TLS.PubKey = sub[2]
	n.VRF.ID = sub[3]
	return n
}

// VerifC17RegisterNode.
//
//	keys 0..4: the new node's own identity / consensus / P2P / TLS / VRF keys
//	keys 5..9: node X's identity and sub-keys (cfg same=1: X is the node itself, i.e. an update with rotated keys)
//	key 10: the entity, key 11: an unrelated key
func VerifC17RegisterNode() {
	k := c17NewKeys(12)
	same := symx.Cfg("same", 0) == 1
	epoch := beacon.EpochTime(symx.Uint64("epoch"))

	xID := k.pks[5]
	if same {
		xID = k.pks[0]
	}
	x := c17Descriptor(xID, k.pks[10], [4]signature.PublicKey{k.pks[6], k.pks[7], k.pks[8], k.pks[9]}, symx.Uint64("xExpiration"))

	// the new descriptor: at most one slot altered
	sub := [4]int{1, 2, 3, 4}
	slot := symx.Choose("alteredSlot", 5) // 0: none, 1..4: sub-key slot
	to := 0
	if slot > 0 {
		to = symx.Choose("alteredTo", 5)
		switch to {
		case 0: // another of its own sub-keys
			sub[slot-1] = sub[slot%4]
		case 1: // its own identity key
			sub[slot-1] = 0
		case 2: // X's key of the same slot
			sub[slot-1] = 5 + slot
		case 3: // X's key of another slot
			sub[slot-1] = 6 + slot%4
		case 4: // X's identity key
			sub[slot-1] = 5
		}
	}
	n := c17Descriptor(k.pks[0], k.pks[10], [4]signature.PublicKey{k.pks[sub[0]], k.pks[sub[1]], k.pks[sub[2]], k.pks[sub[3]]}, symx.Uint64("expiration"))

	member := symx.Bool("entityListsNode")
	ent := &entity.Entity{Versioned: cbor.NewVersioned(entity.LatestDescriptorVersion), ID: k.pks[10]}
	if member {
		ent.Nodes = []signature.PublicKey{k.pks[0]}
	} else {
		ent.Nodes = []signature.PublicKey{k.pks[11]}
	}

	// signatures: every distinct key of the descriptor signs; then one fault
	need := []int{0}
	for _, s := range sub {
		dup := false
		for _, have := range need {
			dup = dup || have == s
		}
		if !dup {
			need = append(need, s)
		}
	}
	blob := cbor.Marshal(n)
	fault := symx.Choose("sigFault", 4) // 0 none, 1 one signature missing, 2 one signature forged, 3 one superfluous signer
	victim := 0
	if fault == 1 || fault == 2 {
		victim = symx.Choose("sigFaultAt", len(need))
	}
	sigNode := &node.MultiSignedNode{}
	sigNode.Blob = blob
	for i, key := range need {
		s := k.sign(key, RegisterNodeSignatureContext, blob)
		if i == victim && fault == 1 {
			continue
		}
		if i == victim && fault == 2 {
			forged := symx.Bytes("forgedSig", 64)
			symx.Assume(string(forged) != string(s.Signature[:]))
			copy(s.Signature[:], forged)
		}
		sigNode.Signatures = append(sigNode.Signatures, s)
	}
	if fault == 3 {
		sigNode.Signatures = append(sigNode.Signatures, k.sign(11, RegisterNodeSignatureContext, blob))
	}

	params := &ConsensusParameters{DebugAllowUnroutableAddresses: true, MaxNodeExpiration: beacon.EpochTime(symx.Uint64("maxNodeExpiration"))}
	got, _, err := VerifyRegisterNodeArgs(context.Background(), params, logging.GetLogger("verif"), sigNode, ent,
		time.Unix(1700000000, 0), 10, false, false, epoch, nil, &c17Lookup{x: x}, true)

	if err != nil {
		symx.Cover("rejected")
		if slot == 0 && fault == 0 && member && !(params.MaxNodeExpiration > 0 && n.Expiration > epoch+params.MaxNodeExpiration) {
			symx.Assert(false, "a correctly signed registration with fresh keys was rejected")
		}
		return
	}
	symx.Cover("accepted")
	symx.Assert(got != nil && got.ID.Equal(k.pks[0]), "accepted descriptor has another identity")
	// authority: a valid signature by every key of the descriptor, and membership in the entity's node list
	// (a superfluous signature by an unrelated key is not an authority violation; the property does not mention it)
	symx.Assert(fault != 1, "registration accepted although the signature of one of the node's keys is missing")
	symx.Assert(fault != 2, "registration accepted although the signature of one of the node's keys does not verify")
	symx.Assert(member, "registration accepted although the entity does not list the node")
	// uniqueness: no key of the accepted descriptor belongs to another registered node
	if !same {
		for _, key := range []signature.PublicKey{got.Consensus.ID, got.P2P.ID, got.TLS.PubKey, got.VRF.ID} {
			for _, xk := range []signature.PublicKey{x.Consensus.ID, x.P2P.ID, x.TLS.PubKey, x.VRF.ID} {
				symx.Assert(!key.Equal(xk), "accepted node uses a sub-key of another registered node")
			}
			symx.Assert(!key.Equal(x.ID), "accepted node uses the identity key of another registered node as a sub-key")
		}
	}
	if slot > 0 && to <= 1 {
		symx.Cover("accepted-key-in-two-roles") // (not excluded by the property; see DESIGN.md)
	}
}
