package scheduler

// C14: the whole epoch-transition election, (*Application).elect, on the real
// consensus state tree: nodes, node statuses and the runtime are read back from
// the registry state, stake from the staking state, entropy and parameters from
// the beacon / scheduler / consensus state. The validator set and the runtime
// committee written to the scheduler state are compared with eligibility
// recomputed from the harness' own record of what it registered.
//
// Symbolic: per node owner, role bits, expiration epoch, freeze end epoch,
// runtime version, suspension; per entity escrow; stake threshold; election
// epoch; runtime group sizes and scheduling constraints (max nodes per entity,
// minimum pool size, validator-set membership per role); every permutation the
// entropy can produce.

import (
	"time"

	beacon "github.com/oasisprotocol/oasis-core/go/beacon/api"
	"github.com/oasisprotocol/oasis-core/go/common"
	"github.com/oasisprotocol/oasis-core/go/common/cbor"
	"github.com/oasisprotocol/oasis-core/go/common/crypto/signature"
	"github.com/oasisprotocol/oasis-core/go/common/node"
	"github.com/oasisprotocol/oasis-core/go/common/quantity"
	"github.com/oasisprotocol/oasis-core/go/common/version"
	abciAPI "github.com/oasisprotocol/oasis-core/go/consensus/cometbft/api"
	beaconState "github.com/oasisprotocol/oasis-core/go/consensus/cometbft/apps/beacon/state"
	consensusState "github.com/oasisprotocol/oasis-core/go/consensus/cometbft/apps/consensus/state"
	registryState "github.com/oasisprotocol/oasis-core/go/consensus/cometbft/apps/registry/state"
	schedulerState "github.com/oasisprotocol/oasis-core/go/consensus/cometbft/apps/scheduler/state"
	stakingState "github.com/oasisprotocol/oasis-core/go/consensus/cometbft/apps/staking/state"
	"github.com/oasisprotocol/oasis-core/go/consensus/genesis"
	symx "github.com/oasisprotocol/oasis-core/go/internal/verifsymx"
	registry "github.com/oasisprotocol/oasis-core/go/registry/api"
	scheduler "github.com/oasisprotocol/oasis-core/go/scheduler/api"
	staking "github.com/oasisprotocol/oasis-core/go/staking/api"
)

type c14Dispatcher struct{}

func (c14Dispatcher) Subscribe(any, abciAPI.MessageSubscriber) {}

func (c14Dispatcher) Publish(*abciAPI.Context, abciAPI.Message) (any, error) { return nil, nil }

func c14Must(err error, what string) { symx.Assert(err == nil, what+" failed") }

// c14Constraint returns one role's scheduling constraints chosen by cfg digits:
// maxnodes (0 = none, k = limit k), minpool (0 = none, k = limit k), valset (0/1).
func c14Constraint(maxNodes, minPool, valSet int) registry.SchedulingConstraints {
	var c registry.SchedulingConstraints
	if maxNodes > 0 {
		c.MaxNodes = &registry.MaxNodesConstraint{Limit: uint16(maxNodes)}
	}
	if minPool > 0 {
		c.MinPoolSize = &registry.MinPoolSizeConstraint{Limit: uint16(minPool)}
	}
	if valSet > 0 {
		c.ValidatorSet = &registry.ValidatorSetConstraint{}
	}
	return c
}

// c14Sym: which groups of inputs are symbolic in this instance (cfg "sym" bit mask:
// 1 expiration, 2 freeze, 4 roles, 8 runtime entry, 16 liveness faults, 32 group
// sizes, 64 validator limit); the others take the fixed value given.
func c14Sym(bit int) bool { return symx.Cfg("sym", 127)&bit != 0 }

func c14Pick(bit int, name string, n, fixed int) int {
	if c14Sym(bit) {
		return symx.Choose(name, n)
	}
	return fixed
}

func VerifC14Elect() {
	e := symx.Cfg("e", 2)
	m := symx.Cfg("m", 2)
	appState := abciAPI.NewMockApplicationState(&abciAPI.MockApplicationStateConfig{})
	ctx := appState.NewContext(abciAPI.ContextInitChain)
	st := stakingState.NewMutableState(ctx.State())
	reg := registryState.NewMutableState(ctx.State())
	sch := schedulerState.NewMutableState(ctx.State())
	bcn := beaconState.NewMutableState(ctx.State())

	// election epoch: symbolic, away from the ends of the range
	epoch := beacon.EpochTime(symx.Uint64("epoch"))
	symx.Assume(epoch >= 2 && epoch < 1<<62)

	threshold := c14Q("threshold")
	c14Must(st.SetConsensusParameters(ctx, &staking.ConsensusParameters{
		Thresholds: map[staking.ThresholdKind]quantity.Quantity{staking.KindEntity: *threshold},
	}), "staking.SetConsensusParameters")
	c14Must(reg.SetConsensusParameters(ctx, &registry.ConsensusParameters{}), "registry.SetConsensusParameters")
	c14Must(bcn.SetConsensusParameters(ctx, &beacon.ConsensusParameters{Backend: beacon.BackendInsecure}), "beacon.SetConsensusParameters")
	// (natively the permutations are whatever the real DRBG derives from the entropy; repeated native runs vary it)
	entropy := []byte("verif entropy 0123456789abcdef01")
	entropy[0] = byte(symx.Attempt())
	c14Must(bcn.SetBeacon(ctx, entropy), "SetBeacon")
	c14Must(consensusState.NewMutableState(ctx.State()).SetConsensusParameters(ctx, &genesis.Parameters{FeatureVersion: &version.Version{Major: 100}}), "consensus.SetConsensusParameters")
	params := &scheduler.ConsensusParameters{
		MinValidators:          1,
		MaxValidators:          c14Pick(64, "maxValidators", 2, symx.Cfg("maxval", 2)-1) + 1,
		MaxValidatorsPerEntity: 1,
	}
	c14Must(sch.SetConsensusParameters(ctx, params), "scheduler.SetConsensusParameters")

	entIDs := make([]signature.PublicKey, e)
	entAddrs := make([]staking.Address, e)
	stakes := make([]*quantity.Quantity, e)
	for i := 0; i < e; i++ {
		entIDs[i] = c14Key(byte(100 + i))
		entAddrs[i] = staking.NewAddress(entIDs[i])
		stakes[i] = c14Q(symx.N("stake", i))
		symx.Assume(stakes[i].Cmp(c14MaxSupply) <= 0)
		var acct staking.Account
		acct.Escrow.Active.Balance = *stakes[i].Clone()
		acct.Escrow.Active.TotalShares = *stakes[i].Clone()
		acct.Escrow.StakeAccumulator.AddClaimUnchecked("entity", staking.GlobalStakeThresholds(staking.KindEntity))
		c14Must(st.SetAccount(ctx, entAddrs[i], &acct), "SetAccount")
	}

	// the runtime
	rtID := common.NewTestNamespaceFromSeed([]byte("verif c14 runtime"), 0)
	wantWorkers := 1 + c14Pick(32, "groupSize", 2, symx.Cfg("gs", 1)-1)
	wantBackup := c14Pick(32, "groupBackupSize", 2, symx.Cfg("gb", 0))
	activeVersion := version.Version{Major: 1, Minor: 2, Patch: 3}
	futureVersion := version.Version{Major: 2}
	rt := &registry.Runtime{
		Versioned:       cbor.NewVersioned(registry.LatestRuntimeDescriptorVersion),
		ID:              rtID,
		EntityID:        entIDs[0],
		Kind:            registry.KindCompute,
		GovernanceModel: registry.GovernanceEntity,
		Executor:        registry.ExecutorParameters{GroupSize: uint16(wantWorkers), GroupBackupSize: uint16(wantBackup), RoundTimeout: 5},
		TxnScheduler: registry.TxnSchedulerParameters{
			BatchFlushTimeout: time.Second, MaxBatchSize: 100, MaxBatchSizeBytes: 100_000_000, ProposerTimeout: 2 * time.Second,
		},
		// one deployment active at the election epoch, one that only becomes valid afterwards
		Deployments: []*registry.VersionInfo{
			{Version: activeVersion, ValidFrom: 1},
			{Version: futureVersion, ValidFrom: epoch + 1},
		},
		Constraints: map[scheduler.CommitteeKind]map[scheduler.Role]registry.SchedulingConstraints{
			scheduler.KindComputeExecutor: {
				scheduler.RoleWorker:       c14Constraint(symx.Cfg("wmax", 0), symx.Cfg("wmin", 0), symx.Cfg("wval", 0)),
				scheduler.RoleBackupWorker: c14Constraint(symx.Cfg("bmax", 0), symx.Cfg("bmin", 0), symx.Cfg("bval", 0)),
			},
		},
	}
	c14Must(reg.SetRuntime(ctx, rt, false), "SetRuntime")

	// the nodes
	nodes := make([]*node.Node, m)
	owner := make([]int, m)
	frozen := make([]bool, m)
	suspended := make([]bool, m)
	rightVersion := make([]bool, m)
	for j := 0; j < m; j++ {
		owner[j] = symx.Choose(symx.N("owner", j), e)
		n := &node.Node{
			Versioned:  cbor.NewVersioned(node.LatestNodeDescriptorVersion),
			ID:         c14Key(byte(1 + j)),
			EntityID:   entIDs[owner[j]],
			Expiration: epoch, // last epoch in which the node is not expired
		}
		if c14Sym(1) {
			n.Expiration = beacon.EpochTime(symx.Uint64(symx.N("expiration", j)))
		}
		n.Consensus.ID, n.P2P.ID, n.TLS.PubKey, n.VRF.ID = c14Key(byte(51+j)), c14Key(byte(61+j)), c14Key(byte(71+j)), c14Key(byte(81+j))
		switch c14Pick(4, symx.N("roles", j), 3, 2) {
		case 0:
			n.Roles = node.RoleValidator
		case 1:
			n.Roles = node.RoleComputeWorker
		default:
			n.Roles = node.RoleValidator | node.RoleComputeWorker
		}
		switch c14Pick(8, symx.N("runtimeEntry", j), 3, 1) {
		case 0: // does not serve the runtime
		case 1:
			n.Runtimes = []*node.Runtime{{ID: rtID, Version: activeVersion}}
			rightVersion[j] = true
		default: // serves only the version that is not active yet
			n.Runtimes = []*node.Runtime{{ID: rtID, Version: futureVersion}}
		}
		status := &registry.NodeStatus{}
		if c14Sym(2) {
			status.FreezeEndTime = beacon.EpochTime(symx.Uint64(symx.N("freezeEnd", j)))
		}
		frozen[j] = status.FreezeEndTime > 0
		if c14Sym(16) && symx.Bool(symx.N("hasFault", j)) {
			until := beacon.EpochTime(symx.Uint64(symx.N("suspendedUntil", j)))
			status.Faults = map[common.Namespace]*registry.Fault{rtID: {Failures: 1, SuspendedUntil: until}}
			suspended[j] = until > 0 && epoch < until
		}
		sn := &node.MultiSignedNode{}
		sn.Blob = cbor.Marshal(n)
		c14Must(reg.SetNode(ctx, nil, n, sn), "SetNode")
		c14Must(reg.SetNodeStatus(ctx, n.ID, status), "SetNodeStatus")
		nodes[j] = n
	}

	ctx = appState.NewContext(abciAPI.ContextBeginBlock)
	app := &Application{appState, c14Dispatcher{}}
	err := app.elect(ctx, epoch, false)

	// eligibility recomputed from what was registered
	claimsOK := func(i int) bool { return stakes[i].Cmp(threshold) >= 0 }
	live := func(j int) bool { return !frozen[j] && !(nodes[j].Expiration < epoch) }
	valEligible := func(j int) bool {
		return live(j) && nodes[j].HasRoles(node.RoleValidator) && claimsOK(owner[j])
	}
	compEligible := func(j int) bool {
		return live(j) && nodes[j].HasRoles(node.RoleComputeWorker) && claimsOK(owner[j]) && rightVersion[j] && !suspended[j]
	}
	anyVal := false
	for j := 0; j < m; j++ {
		if valEligible(j) {
			anyVal = true
		}
	}
	if err != nil {
		symx.Assert(!anyVal, "election failed although an eligible validator node exists")
		symx.Cover("no-validators")
		return
	}
	symx.Assert(anyVal, "election succeeded without any eligible validator node")

	// validators
	rd := schedulerState.NewMutableState(ctx.State())
	pending, perr := rd.PendingValidators(ctx)
	symx.Assert(perr == nil && pending != nil, "pending validators missing")
	symx.Assert(len(pending) >= 1 && len(pending) <= params.MaxValidators, "validator count outside the limits")
	entityIsValidator := make([]bool, e)
	perEntity := make([]int, e)
	found := 0
	for j := 0; j < m; j++ {
		v, ok := pending[nodes[j].Consensus.ID]
		if !ok {
			continue
		}
		found++
		symx.Assert(v.ID == nodes[j].ID && v.EntityID == nodes[j].EntityID, "validator record does not match its node")
		symx.Assert(!frozen[j], "frozen node elected as validator")
		symx.Assert(!(nodes[j].Expiration < epoch), "expired node elected as validator")
		symx.Assert(nodes[j].HasRoles(node.RoleValidator), "node without the validator role elected")
		symx.Assert(claimsOK(owner[j]), "validator of an entity whose escrow does not cover its stake claims")
		entityIsValidator[owner[j]] = true
		perEntity[owner[j]]++
	}
	symx.Assert(found == len(pending), "pending validator set contains an unregistered node")
	for i := 0; i < e; i++ {
		symx.Assert(perEntity[i] <= params.MaxValidatorsPerEntity, "too many validators of one entity")
	}
	for i := 0; i < e; i++ {
		has := false
		for j := 0; j < m; j++ {
			if owner[j] == i && valEligible(j) {
				has = true
			}
		}
		if has && !entityIsValidator[i] {
			symx.Assert(len(pending) == params.MaxValidators, "eligible entity left out although the validator set is not full")
			for k := 0; k < e; k++ {
				if entityIsValidator[k] {
					symx.Assert(stakes[i].Cmp(stakes[k]) <= 0, "entity with more stake left out in favour of one with less")
				}
			}
		}
	}

	// the runtime committee
	cs := rt.Constraints[scheduler.KindComputeExecutor]
	roleOK := func(j int, role scheduler.Role) bool {
		if !compEligible(j) {
			return false
		}
		if cs[role].ValidatorSet != nil && !entityIsValidator[owner[j]] {
			return false
		}
		return true
	}
	// size of the candidate pool of a role after the per-entity limit
	pool := func(role scheduler.Role) int {
		total := 0
		for i := 0; i < e; i++ {
			cnt := 0
			for j := 0; j < m; j++ {
				if owner[j] == i && roleOK(j, role) {
					cnt++
				}
			}
			if mn := cs[role].MaxNodes; mn != nil && mn.Limit > 0 && cnt > int(mn.Limit) {
				cnt = int(mn.Limit)
			}
			total += cnt
		}
		return total
	}
	electable := true
	for _, role := range []scheduler.Role{scheduler.RoleWorker, scheduler.RoleBackupWorker} {
		want := wantWorkers
		if role == scheduler.RoleBackupWorker {
			want = wantBackup
		}
		if want == 0 {
			continue
		}
		p := pool(role)
		if p < want {
			electable = false
		}
		if mp := cs[role].MinPoolSize; mp != nil && p < int(mp.Limit) {
			electable = false
		}
	}
	committee, cerr := rd.Committee(ctx, scheduler.KindComputeExecutor, rtID)
	symx.Assert(cerr == nil, "committee lookup failed")
	if committee == nil {
		symx.Assert(!electable, "no committee although enough eligible nodes exist for every role")
		symx.Cover("no-committee")
		symx.Cover("end")
		return
	}
	symx.Assert(electable, "a committee was elected although a role cannot be filled from eligible nodes")
	symx.Assert(committee.ValidFor == epoch && committee.RuntimeID == rtID, "committee recorded for another epoch or runtime")
	symx.Assert(len(committee.Members) == wantWorkers+wantBackup, "committee size differs from the configured group sizes")
	for idx, mbr := range committee.Members {
		role := scheduler.RoleWorker
		if idx >= wantWorkers {
			role = scheduler.RoleBackupWorker
		}
		symx.Assert(mbr.Role == role, "workers do not precede backup workers / wrong number of members in a role")
		j := -1
		for k := 0; k < m; k++ {
			if nodes[k].ID == mbr.PublicKey {
				j = k
			}
		}
		symx.Assert(j >= 0, "committee member is not a registered node")
		symx.Assert(!frozen[j], "frozen node elected into the committee")
		symx.Assert(!(nodes[j].Expiration < epoch), "expired node elected into the committee")
		symx.Assert(nodes[j].HasRoles(node.RoleComputeWorker), "node without the compute role elected into the committee")
		symx.Assert(rightVersion[j], "node that does not run the active runtime version elected into the committee")
		symx.Assert(!suspended[j], "suspended node elected into the committee")
		symx.Assert(claimsOK(owner[j]), "committee member of an entity whose escrow does not cover its stake claims")
		if cs[role].ValidatorSet != nil {
			symx.Assert(entityIsValidator[owner[j]], "validator-set constraint: member's entity has no elected validator")
		}
		sameRole, sameEntity := 0, 0
		for idx2, m2 := range committee.Members {
			if (idx2 >= wantWorkers) != (idx >= wantWorkers) {
				continue
			}
			if m2.PublicKey == mbr.PublicKey {
				sameRole++
			}
			for k := 0; k < m; k++ {
				if nodes[k].ID == m2.PublicKey && owner[k] == owner[j] {
					sameEntity++
				}
			}
		}
		symx.Assert(sameRole == 1, "node elected twice into the same role")
		if mn := cs[role].MaxNodes; mn != nil && mn.Limit > 0 {
			symx.Assert(sameEntity <= int(mn.Limit), "more committee nodes of one entity than the runtime allows")
		}
	}
	symx.Cover("committee")
	symx.Cover("end")
}
