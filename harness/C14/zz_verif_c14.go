package scheduler

// C14: validator election elects only eligible nodes, respects the limits,
// prefers higher entity stake, gives voting power that is monotone in stake,
// and the validator updates turn the old set into exactly the new one.

import (
	"github.com/cometbft/cometbft/abci/types"

	beacon "github.com/oasisprotocol/oasis-core/go/beacon/api"
	"github.com/oasisprotocol/oasis-core/go/common/crypto/signature"
	memorySigner "github.com/oasisprotocol/oasis-core/go/common/crypto/signature/signers/memory"
	"github.com/oasisprotocol/oasis-core/go/common/node"
	"github.com/oasisprotocol/oasis-core/go/common/quantity"
	abciAPI "github.com/oasisprotocol/oasis-core/go/consensus/cometbft/api"
	consensusState "github.com/oasisprotocol/oasis-core/go/consensus/cometbft/apps/consensus/state"
	schedulerState "github.com/oasisprotocol/oasis-core/go/consensus/cometbft/apps/scheduler/state"
	stakingState "github.com/oasisprotocol/oasis-core/go/consensus/cometbft/apps/staking/state"
	symx "github.com/oasisprotocol/oasis-core/go/internal/verifsymx"
	scheduler "github.com/oasisprotocol/oasis-core/go/scheduler/api"
	staking "github.com/oasisprotocol/oasis-core/go/staking/api"
)

func c14Key(b byte) signature.PublicKey {
	var pk signature.PublicKey
	pk[0] = b
	pk[31] = 0x14
	return pk
}

func c14Q(name string) *quantity.Quantity {
	q := quantity.NewQuantity()
	if err := q.FromBigInt(symx.Nat(name)); err != nil {
		symx.Unreachable("non-negative integer rejected")
	}
	return q
}

func c14UpdKey(u types.ValidatorUpdate) string {
	pk := u.PubKey
	return string(pk.GetEd25519())
}

// c14Proof: node j's VRF proof for the epoch. Under the engine the proof-to-hash step of the curve library is a
// harness function (redirect) and the proof bytes are symbolic; natively a real proof is produced with a test key
// (the sortition order then is whatever the real hashes give).
func c14Proof(j int) *signature.Proof {
	p := &signature.Proof{PublicKey: c14Key(byte(91 + j))}
	if symx.Symbolic() {
		copy(p.Proof[:], symx.Bytes(symx.N("proof", j), 8))
		return p
	}
	signer := memorySigner.NewTestSigner("verif c14 vrf " + string(rune('0'+j)))
	signer.(*memorySigner.Signer).UnsafeSetRole(signature.SignerVRF)
	real, err := signature.Prove(signer, []byte("verif alpha"))
	symx.Assert(err == nil, "Prove failed")
	return real
}

func vC14ProofToHash(p *signature.Proof) []byte { return append([]byte{}, p.Proof[:16]...) }

var c14MaxSupply = quantity.NewFromUint64(10_000_000_000_000_000_000)

// VerifC14Validators: e entities with symbolic escrow and one stake claim each,
// m nodes with symbolic owner and role bit; symbolic limits.
func VerifC14Validators() {
	e := symx.Cfg("e", 2)
	m := symx.Cfg("m", 3)
	appState := abciAPI.NewMockApplicationState(&abciAPI.MockApplicationStateConfig{})
	ctx := appState.NewContext(abciAPI.ContextInitChain)
	st := stakingState.NewMutableState(ctx.State())
	threshold := c14Q("threshold")
	symx.Assert(st.SetConsensusParameters(ctx, &staking.ConsensusParameters{
		Thresholds: map[staking.ThresholdKind]quantity.Quantity{staking.KindEntity: *threshold},
	}) == nil, "SetConsensusParameters failed")
	entIDs := make([]signature.PublicKey, e)
	entAddrs := make([]staking.Address, e)
	stakes := make([]*quantity.Quantity, e)
	for i := 0; i < e; i++ {
		entIDs[i] = c14Key(byte(100 + i))
		entAddrs[i] = staking.NewAddress(entIDs[i])
		stakes[i] = c14Q(symx.N("stake", i))
		symx.Assume(stakes[i].Cmp(c14MaxSupply) <= 0) // documented maximum total supply (10^19 base units)
		var acct staking.Account
		acct.Escrow.Active.Balance = *stakes[i].Clone()
		acct.Escrow.Active.TotalShares = *stakes[i].Clone()
		acct.Escrow.StakeAccumulator.AddClaimUnchecked("entity", staking.GlobalStakeThresholds(staking.KindEntity))
		symx.Assert(st.SetAccount(ctx, entAddrs[i], &acct) == nil, "SetAccount failed")
	}
	c14Must(consensusState.NewMutableState(ctx.State()).SetChainContext(ctx, "aaaaaaaaaaaaaaaaaaaaaaaaaaaaaaaaaaaaaaaaaaaaaaaaaaaaaaaaaaaaaaaa"), "SetChainContext")
	ctx = appState.NewContext(abciAPI.ContextBeginBlock)
	nodes := make([]*node.Node, m)
	owner := make([]int, m)
	for j := 0; j < m; j++ {
		owner[j] = symx.Choose(symx.N("owner", j), e)
		n := &node.Node{ID: c14Key(byte(1 + j)), EntityID: entIDs[owner[j]]}
		n.Consensus.ID = c14Key(byte(51 + j))
		if symx.Cfg("allval", 0) == 1 || symx.Bool(symx.N("isValidator", j)) {
			n.Roles = node.RoleValidator
		} else {
			n.Roles = node.RoleComputeWorker
		}
		nodes[j] = n
	}
	params := &scheduler.ConsensusParameters{
		MinValidators:          1,
		MaxValidators:          1 + symx.Choose("maxValidators", 3),
		MaxValidatorsPerEntity: 1 + symx.Choose("maxPerEntity", 2),
	}
	if symx.Cfg("sqrt", 0) == 1 {
		params.VotingPowerDistribution = scheduler.VotingPowerDistributionSqrt
	}
	stakeAcc, err := stakingState.NewStakeAccumulatorCache(ctx)
	symx.Assert(err == nil, "NewStakeAccumulatorCache failed")
	rewardable := make(map[staking.Address]struct{})
	entropy := []byte("verif entropy 0123456789abcdef0123456789abcdef")
	beaconParams := &beacon.ConsensusParameters{Backend: beacon.BackendInsecure}
	var vrf *beacon.PrevVRFState
	useVRF := symx.Cfg("vrf", 0) == 1
	if useVRF {
		// VRF beacon: a node takes part in the cryptographic sortition iff it submitted a proof for the epoch
		// (whether it does is up to the node); the minimum validator count is 1 or 2
		beaconParams.Backend = beacon.BackendVRF
		params.MinValidators = 1 + symx.Choose("minValidators", 2)
		symx.Assume(params.MinValidators <= params.MaxValidators) // (the parameter sanity check)
		params.MaxValidatorsPerEntity = 1
		vrf = &beacon.PrevVRFState{Pi: map[signature.PublicKey]*signature.Proof{}, CanElectCommittees: true}
		for j := 0; j < m; j++ {
			if symx.Bool(symx.N("hasProof", j)) {
				vrf.Pi[nodes[j].ID] = c14Proof(j)
				// (VRF outputs of different keys collide only with negligible probability)
				for k := 0; k < j; k++ {
					if o := vrf.Pi[nodes[k].ID]; o != nil {
						symx.Assume(o.Proof != vrf.Pi[nodes[j].ID].Proof)
					}
				}
			}
		}
	}
	valEntities, err := electValidators(ctx, 1, beaconParams, stakeAcc, rewardable, nodes, params, entropy, vrf)

	eligibleEnt := func(i int) bool { return stakes[i].Cmp(threshold) >= 0 }
	anyEligible := false
	for j := 0; j < m; j++ {
		if nodes[j].HasRoles(node.RoleValidator) && eligibleEnt(owner[j]) {
			anyEligible = true
		}
	}
	if err != nil {
		if useVRF {
			// with a minimum: the election may fail only if fewer entities than the minimum run an eligible validator
			// node (each entity can contribute at least one validator)
			eligibleEntities := 0
			for i := 0; i < e; i++ {
				has := false
				for j := 0; j < m; j++ {
					if owner[j] == i && nodes[j].HasRoles(node.RoleValidator) && eligibleEnt(i) {
						has = true
					}
				}
				if has {
					eligibleEntities++
				}
			}
			symx.Assert(eligibleEntities < params.MinValidators, "validator election failed (would halt the chain) although enough entities run eligible validator nodes")
			symx.Cover("no-validators")
			return
		}
		symx.Assert(!anyEligible, "election failed although an eligible validator node exists")
		symx.Cover("no-validators")
		return
	}
	symx.Cover("elected")
	pending, perr := schedulerState.NewMutableState(ctx.State()).PendingValidators(ctx)
	symx.Assert(perr == nil && pending != nil, "pending validators missing")
	symx.Assert(len(pending) >= 1 && len(pending) <= params.MaxValidators, "validator count outside the limits")
	perEntity := make([]int, e)
	elected := make([]bool, e)
	for j := 0; j < m; j++ {
		v, ok := pending[nodes[j].Consensus.ID]
		if !ok {
			continue
		}
		symx.Assert(v.ID == nodes[j].ID && v.EntityID == nodes[j].EntityID, "validator record does not match its node")
		symx.Assert(nodes[j].HasRoles(node.RoleValidator), "node without the validator role elected")
		symx.Assert(eligibleEnt(owner[j]), "node of an entity with insufficient stake elected")
		want, werr := scheduler.VotingPowerFromStake(stakes[owner[j]], params.VotingPowerDistribution)
		symx.Assert(werr == nil && v.VotingPower == want, "voting power is not the one derived from the entity's escrow")
		perEntity[owner[j]]++
		elected[owner[j]] = true
		_, inSet := valEntities[entAddrs[owner[j]]]
		symx.Assert(inSet, "elected entity missing from the returned validator entity set")
		_, rew := rewardable[entAddrs[owner[j]]]
		symx.Assert(rew, "elected entity not marked rewardable")
	}
	total := 0
	for i := 0; i < e; i++ {
		symx.Assert(perEntity[i] <= params.MaxValidatorsPerEntity, "too many validators of one entity")
		total += perEntity[i]
		_, inSet := valEntities[entAddrs[i]]
		symx.Assert(inSet == elected[i], "returned validator entity set differs from the entities that got a node elected")
	}
	symx.Assert(total == len(pending), "pending validator set contains an unknown node")
	// descending stake: an eligible entity with a validator node that got nothing elected
	// never has more stake than an elected entity
	for i := 0; i < e; i++ {
		hasNode := false
		for j := 0; j < m; j++ {
			if owner[j] == i && nodes[j].HasRoles(node.RoleValidator) {
				hasNode = true
			}
		}
		if hasNode && eligibleEnt(i) && !elected[i] && !useVRF {
			symx.Assert(len(pending) == params.MaxValidators, "eligible entity left out although the set is not full")
			for k := 0; k < e; k++ {
				if elected[k] {
					symx.Assert(stakes[i].Cmp(stakes[k]) <= 0, "entity with more stake left out in favour of one with less")
				}
			}
			symx.Cover("left-out")
		}
	}
	symx.Cover("end")
}

// VerifC14VotingPower: voting power is at least 1 and non-decreasing in stake.
func VerifC14VotingPower() {
	s1, s2 := c14Q("s1"), c14Q("s2")
	symx.Assume(s1.Cmp(s2) <= 0)
	if symx.Cfg("bounded", 1) == 1 {
		symx.Assume(s2.Cmp(c14MaxSupply) <= 0)
	}
	dist := scheduler.VotingPowerDistribution(symx.Cfg("sqrt", 0))
	p1, err1 := scheduler.VotingPowerFromStake(s1, dist)
	p2, err2 := scheduler.VotingPowerFromStake(s2, dist)
	if err1 != nil || err2 != nil {
		symx.Cover("too-large")
		symx.Assert(err2 != nil, "smaller stake rejected as too large while a larger one is accepted")
		return
	}
	symx.Assert(p1 >= 1 && p2 >= 1, "voting power below one")
	symx.Assert(p1 <= p2, "voting power not monotone in stake")
	symx.Cover("end")
}

// VerifC14Diff: for arbitrary current and pending validator sets over k keys,
// applying diffValidators' updates to the current set yields exactly the pending one.
func VerifC14Diff() {
	k := symx.Cfg("k", 3)
	appState := abciAPI.NewMockApplicationState(&abciAPI.MockApplicationStateConfig{})
	ctx := appState.NewContext(abciAPI.ContextEndBlock)
	cur := map[signature.PublicKey]*scheduler.Validator{}
	pending := map[signature.PublicKey]*scheduler.Validator{}
	for j := 0; j < k; j++ {
		id := c14Key(byte(51 + j))
		if symx.Bool(symx.N("inCurrent", j)) {
			cur[id] = &scheduler.Validator{ID: c14Key(byte(1 + j)), VotingPower: 1 + int64(symx.Uint8(symx.N("oldPower", j)))}
		}
		if symx.Bool(symx.N("inPending", j)) {
			pending[id] = &scheduler.Validator{ID: c14Key(byte(1 + j)), VotingPower: 1 + int64(symx.Uint8(symx.N("newPower", j)))}
		}
	}
	updates := diffValidators(ctx.Logger(), cur, pending)
	applied := map[string]int64{}
	for key, v := range cur {
		applied[c14UpdKey(abciAPI.PublicKeyToValidatorUpdate(key, 1))] = v.VotingPower
	}
	seen := map[string]bool{}
	for _, u := range updates {
		key := c14UpdKey(u)
		symx.Assert(!seen[key], "two updates for the same validator key")
		seen[key] = true
		if u.Power == 0 {
			_, had := applied[key]
			symx.Assert(had, "update removes a validator that was not in the set")
			delete(applied, key)
		} else {
			applied[key] = u.Power
		}
	}
	symx.Assert(len(applied) == len(pending), "validator updates do not produce a set of the elected size")
	for key, v := range pending {
		p, ok := applied[c14UpdKey(abciAPI.PublicKeyToValidatorUpdate(key, 1))]
		symx.Assert(ok && p == v.VotingPower, "validator updates do not turn the previous set into the elected one")
	}
	symx.Cover("end")
}
