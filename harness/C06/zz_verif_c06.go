package badger

// C06: finalized versions stay fully readable until pruned, on the real
// Badger-backed (hashed) node database code over the Badger model.
//
// History: version 1 = k symbolic entries committed and finalized (optionally
// with a second, non-finalized root at the same version, which finalisation
// discards); version 2 = a symbolic batch of inserts / overwrites / removals on
// top of it, committed and finalized; then optionally version 1 is pruned.
// After every step every retained finalized root answers every lookup exactly as
// the contents it was committed with (read through a fresh tree that loads every
// node lazily from the database), discarded and pruned roots are gone, and the
// finalisation / pruning order rules hold.

import (
	"bytes"
	"context"

	"github.com/oasisprotocol/oasis-core/go/common"
	symx "github.com/oasisprotocol/oasis-core/go/internal/verifsymx"
	"github.com/oasisprotocol/oasis-core/go/storage/mkvs"
	"github.com/oasisprotocol/oasis-core/go/storage/mkvs/db/api"
	"github.com/oasisprotocol/oasis-core/go/storage/mkvs/node"
)

type c06KV struct{ k, v []byte }

func c06Set(m []c06KV, k, v []byte) []c06KV {
	for i := range m {
		if bytes.Equal(m[i].k, k) {
			m[i].v = v
			return m
		}
	}
	return append(m, c06KV{k, v})
}

func c06Del(m []c06KV, k []byte) []c06KV {
	for i := range m {
		if bytes.Equal(m[i].k, k) {
			return append(m[:i:i], m[i+1:]...)
		}
	}
	return m
}

// c06CheckRoot reads every key of the reference contents (and one absent probe) through a fresh tree.
func c06CheckRoot(ctx context.Context, db api.NodeDB, root node.Root, want []c06KV, probe []byte, label string) {
	t := mkvs.NewWithRoot(nil, db, root)
	defer t.Close()
	for _, e := range want {
		v, err := t.Get(ctx, e.k)
		symx.Assert(err == nil, label+": a key of a retained finalized version cannot be read")
		symx.Assert(v != nil && bytes.Equal(v, e.v), label+": a retained finalized version returns a different value")
	}
	present := false
	for _, e := range want {
		if bytes.Equal(e.k, probe) {
			present = true
		}
	}
	if !present {
		v, err := t.Get(ctx, probe)
		symx.Assert(err == nil && v == nil, label+": a retained finalized version returns a value for an absent key")
	}
	n := 0
	it := t.NewIterator(ctx)
	defer it.Close()
	for it.Rewind(); it.Valid(); it.Next() {
		n++
	}
	symx.Assert(it.Err() == nil && n == len(want), label+": iteration over a retained finalized version does not yield its keys")
}

func VerifC06Versions() {
	ctx := context.Background()
	var ns common.Namespace
	k := symx.Cfg("k", 2)
	nops := symx.Cfg("n", 2)
	db, err := New(&api.Config{Namespace: ns, MemoryOnly: true, NoFsync: true, MaxCacheSize: 16 * 1024 * 1024})
	symx.Assert(err == nil, "opening the node database failed")
	defer db.Close()

	emptyRoot := node.Root{Namespace: ns, Version: 0, Type: node.RootTypeState}
	emptyRoot.Hash.Empty()

	// version 1
	var c1 []c06KV
	t1 := mkvs.New(nil, db, node.RootTypeState)
	for i := 0; i < k; i++ {
		key, val := symx.Bytes(symx.N("key", i), 1), symx.Bytes(symx.N("val", i), 1)
		symx.Assert(t1.Insert(ctx, key, val) == nil, "Insert failed")
		c1 = c06Set(c1, key, val)
	}
	_, h1, err := t1.Commit(ctx, ns, 1)
	symx.Assert(err == nil, "Commit of version 1 failed")
	r1 := node.Root{Namespace: ns, Version: 1, Type: node.RootTypeState, Hash: h1}

	// optionally a competing root at version 1 that is not going to be finalized
	var rSibling *node.Root
	var cSibling []c06KV
	if symx.Cfg("sibling", 0) == 1 && symx.Bool("hasSibling") {
		ts := mkvs.New(nil, db, node.RootTypeState)
		skey, sval := symx.Bytes("siblingKey", 1), symx.Bytes("siblingVal", 1)
		symx.Assert(ts.Insert(ctx, skey, sval) == nil, "Insert failed")
		cSibling = c06Set(nil, skey, sval)
		_, hs, err := ts.Commit(ctx, ns, 1)
		symx.Assert(err == nil, "Commit of the competing root failed")
		ts.Close()
		if hs != h1 {
			rSibling = &node.Root{Namespace: ns, Version: 1, Type: node.RootTypeState, Hash: hs}
			symx.Assert(db.HasRoot(*rSibling), "committed root not present before finalisation")
		}
	}
	probe := symx.Bytes("probe", 1)
	symx.Assert(db.Finalize([]node.Root{r1}) == nil, "Finalize of version 1 failed")
	symx.Assert(db.HasRoot(r1), "finalized root missing")
	if rSibling != nil {
		// a root that was not finalized is afterwards either reported absent, or still readable with exactly its own contents
		if db.HasRoot(*rSibling) {
			c06CheckRoot(ctx, db, *rSibling, cSibling, probe, "non-finalized root still reported present")
			symx.Cover("sibling-kept")
		} else {
			symx.Cover("sibling-discarded")
		}
	}
	c06CheckRoot(ctx, db, r1, c1, probe, "after finalizing version 1")
	symx.Assert(db.Finalize([]node.Root{r1}) != nil, "a version was finalized twice")

	// version 2 on top of version 1
	c2 := append([]c06KV{}, c1...)
	for i := 0; i < nops; i++ {
		key := symx.Bytes(symx.N("opKey", i), 1)
		if symx.Bool(symx.N("opRemove", i)) {
			symx.Assert(t1.Remove(ctx, key) == nil, "Remove failed")
			c2 = c06Del(c2, key)
		} else {
			val := symx.Bytes(symx.N("opVal", i), 1)
			symx.Assert(t1.Insert(ctx, key, val) == nil, "Insert failed")
			c2 = c06Set(c2, key, val)
		}
	}
	_, h2, err := t1.Commit(ctx, ns, 2)
	symx.Assert(err == nil, "Commit of version 2 failed")
	r2 := node.Root{Namespace: ns, Version: 2, Type: node.RootTypeState, Hash: h2}
	// cfg chain=1 (hash-keyed back end only: the path-keyed one refuses child roots within a version): version 2
	// is reached in two commits, r1 -> M (the batch above) -> r2 = M + one more operation, and a competing child
	// of M, committed BEFORE r2, is discarded at finalisation
	var rChild *node.Root
	var cChild []c06KV
	if symx.Cfg("chain", 0) == 1 {
		rM := r2
		tc := mkvs.NewWithRoot(nil, db, rM)
		ckey, cval := symx.Bytes("childKey", 1), symx.Bytes("childVal", 1)
		if symx.Cfg("chainfix", 0) == 1 {
			ckey = []byte{0x10} // fixed keys, symbolic values: the finalisation logic under test depends on the root structure only
		}
		symx.Assert(tc.Insert(ctx, ckey, cval) == nil, "Insert failed")
		cChild = c06Set(append([]c06KV{}, c2...), ckey, cval)
		_, hc, err := tc.Commit(ctx, ns, 2)
		symx.Assert(err == nil, "Commit of the competing child root failed")
		tc.Close()
		key := symx.Bytes("chainKey", 1)
		if symx.Cfg("chainfix", 0) == 1 {
			key = []byte{0x20}
		}
		if symx.Cfg("chainfix", 0) != 1 && symx.Bool("chainRemove") {
			symx.Assert(t1.Remove(ctx, key) == nil, "Remove failed")
			c2 = c06Del(c2, key)
		} else {
			val := symx.Bytes("chainVal", 1)
			symx.Assert(t1.Insert(ctx, key, val) == nil, "Insert failed")
			c2 = c06Set(c2, key, val)
		}
		_, h2, err = t1.Commit(ctx, ns, 2)
		symx.Assert(err == nil, "second Commit of version 2 failed")
		r2 = node.Root{Namespace: ns, Version: 2, Type: node.RootTypeState, Hash: h2}
		if hc != h2 && hc != rM.Hash {
			rChild = &node.Root{Namespace: ns, Version: 2, Type: node.RootTypeState, Hash: hc}
			symx.Cover("chain-competitor")
		}
	}
	t1.Close()
	// cfg sibling2=1: a competing root at version 2, derived from version 1 by its own symbolic batch (it may remove
	// and re-create nodes that the finalized root keeps from version 1), which is not going to be finalized
	var rSibling2 *node.Root
	var cSibling2 []c06KV
	if symx.Cfg("sibling2", 0) == 1 {
		ts2 := mkvs.NewWithRoot(nil, db, r1)
		cSibling2 = append([]c06KV{}, c1...)
		for i := 0; i < symx.Cfg("sn", 2); i++ {
			key := symx.Bytes(symx.N("sopKey", i), 1)
			remove := false
			if symx.Cfg("sfixed", 0) == 1 {
				// fixed shape: remove a key, re-insert the same key (possibly with its old value), then insert further keys
				remove = i == 0
				if i == 1 {
					key = symx.Bytes(symx.N("sopKey", 0), 1)
				}
			} else {
				remove = symx.Bool(symx.N("sopRemove", i))
			}
			if remove {
				symx.Assert(ts2.Remove(ctx, key) == nil, "Remove failed")
				cSibling2 = c06Del(cSibling2, key)
			} else {
				val := symx.Bytes(symx.N("sopVal", i), 1)
				symx.Assert(ts2.Insert(ctx, key, val) == nil, "Insert failed")
				cSibling2 = c06Set(cSibling2, key, val)
			}
		}
		_, hs2, err := ts2.Commit(ctx, ns, 2)
		symx.Assert(err == nil, "Commit of the competing root at version 2 failed")
		ts2.Close()
		if hs2 != h2 {
			rSibling2 = &node.Root{Namespace: ns, Version: 2, Type: node.RootTypeState, Hash: hs2}
			symx.Cover("sibling2")
		}
	}
	// pruning is refused before the next version is finalized
	symx.Assert(db.Prune(1) != nil, "the only finalized version was pruned")
	symx.Assert(db.Finalize([]node.Root{r2}) == nil, "Finalize of version 2 failed")
	c06CheckRoot(ctx, db, r1, c1, probe, "after finalizing version 2 (version 1)")
	c06CheckRoot(ctx, db, r2, c2, probe, "after finalizing version 2")
	if rSibling2 != nil && db.HasRoot(*rSibling2) {
		c06CheckRoot(ctx, db, *rSibling2, cSibling2, probe, "non-finalized root of version 2 still reported present")
	}
	if rChild != nil && db.HasRoot(*rChild) {
		c06CheckRoot(ctx, db, *rChild, cChild, probe, "non-finalized child root of version 2 still reported present")
	}
	symx.Cover("two-versions")

	pruned1 := false
	if symx.Bool("prune") {
		symx.Assert(db.Prune(2) != nil, "a version other than the earliest was pruned")
		symx.Assert(db.Prune(1) == nil, "Prune of the earliest finalized version failed")
		symx.Assert(db.GetEarliestVersion() == 2, "earliest version not advanced by pruning")
		if h1 != h2 {
			symx.Assert(!db.HasRoot(r1), "pruned root still present")
		}
		// everything the retained version needs is still there, including nodes created in the pruned version
		c06CheckRoot(ctx, db, r2, c2, probe, "after pruning version 1")
		symx.Cover("pruned")
		pruned1 = true
	}
	// cfg v3=1: a third version on top of version 2 (it may re-insert what version 2 removed, remove what it
	// added, or leave the root unchanged or empty), finalized; then pruning catches up (lag 1 or 2 versions)
	if symx.Cfg("v3", 0) == 1 {
		t3 := mkvs.NewWithRoot(nil, db, r2)
		c3 := append([]c06KV{}, c2...)
		key3 := symx.Bytes("op3Key", 1)
		if symx.Bool("op3Remove") {
			symx.Assert(t3.Remove(ctx, key3) == nil, "Remove failed")
			c3 = c06Del(c3, key3)
		} else {
			val3 := symx.Bytes("op3Val", 1)
			symx.Assert(t3.Insert(ctx, key3, val3) == nil, "Insert failed")
			c3 = c06Set(c3, key3, val3)
		}
		_, h3, err := t3.Commit(ctx, ns, 3)
		symx.Assert(err == nil, "Commit of version 3 failed")
		t3.Close()
		r3 := node.Root{Namespace: ns, Version: 3, Type: node.RootTypeState, Hash: h3}
		symx.Assert(db.Finalize([]node.Root{r3}) == nil, "Finalize of version 3 failed")
		if !pruned1 {
			c06CheckRoot(ctx, db, r1, c1, probe, "after finalizing version 3 (version 1)")
		}
		c06CheckRoot(ctx, db, r2, c2, probe, "after finalizing version 3 (version 2)")
		c06CheckRoot(ctx, db, r3, c3, probe, "after finalizing version 3")
		if !pruned1 {
			symx.Assert(db.Prune(1) == nil, "Prune of the earliest finalized version failed (lag 2)")
			c06CheckRoot(ctx, db, r2, c2, probe, "after pruning version 1 (lag 2, version 2)")
			c06CheckRoot(ctx, db, r3, c3, probe, "after pruning version 1 (lag 2, version 3)")
		}
		symx.Assert(db.Prune(2) == nil, "Prune of version 2 failed")
		symx.Assert(db.GetEarliestVersion() == 3, "earliest version not advanced by pruning version 2")
		if h2 != h3 && !h2.IsEmpty() { // (the empty root is trivially present at every version)
			symx.Assert(!db.HasRoot(r2), "pruned root of version 2 still present")
		}
		c06CheckRoot(ctx, db, r3, c3, probe, "after pruning versions 1 and 2")
		symx.Cover("three-versions")
	}
	symx.Cover("end")
}

// VerifC06Types: two root types per version. Version 1 = a state root and an IO root (one symbolic entry each; the
// two trees may hold the same entry, hence share a node), both finalized. Version 2 = the state root derived from
// version 1's by one symbolic operation and a fresh IO root (IO roots never derive from an earlier version), with
// cfg iosib=1 a competing IO root committed first and discarded; both finalized; then version 1 pruned or not.
// After every step every retained finalized root of either type is read back completely.
func VerifC06Types() {
	ctx := context.Background()
	var ns common.Namespace
	db, err := New(&api.Config{Namespace: ns, MemoryOnly: true, NoFsync: true, MaxCacheSize: 16 * 1024 * 1024})
	symx.Assert(err == nil, "opening the node database failed")
	defer db.Close()
	probe := symx.Bytes("probe", 1)

	// version 1
	sk, sv := symx.Bytes("stateKey", 1), symx.Bytes("stateVal", 1)
	ts := mkvs.New(nil, db, node.RootTypeState)
	symx.Assert(ts.Insert(ctx, sk, sv) == nil, "Insert failed")
	cs1 := c06Set(nil, sk, sv)
	_, hs1, err := ts.Commit(ctx, ns, 1)
	symx.Assert(err == nil, "Commit of the state root of version 1 failed")
	s1 := node.Root{Namespace: ns, Version: 1, Type: node.RootTypeState, Hash: hs1}
	ik, iv := symx.Bytes("ioKey", 1), symx.Bytes("ioVal", 1)
	ti := mkvs.New(nil, db, node.RootTypeIO)
	symx.Assert(ti.Insert(ctx, ik, iv) == nil, "Insert failed")
	ci1 := c06Set(nil, ik, iv)
	_, hi1, err := ti.Commit(ctx, ns, 1)
	symx.Assert(err == nil, "Commit of the IO root of version 1 failed")
	ti.Close()
	i1 := node.Root{Namespace: ns, Version: 1, Type: node.RootTypeIO, Hash: hi1}
	symx.Assert(db.Finalize([]node.Root{s1, i1}) == nil, "Finalize of version 1 failed")
	c06CheckRoot(ctx, db, s1, cs1, probe, "after finalizing version 1 (state root)")
	c06CheckRoot(ctx, db, i1, ci1, probe, "after finalizing version 1 (IO root)")

	// version 2
	cs2 := append([]c06KV{}, cs1...)
	opKey := symx.Bytes("opKey", 1)
	if symx.Bool("opRemove") {
		symx.Assert(ts.Remove(ctx, opKey) == nil, "Remove failed")
		cs2 = c06Del(cs2, opKey)
	} else {
		opVal := symx.Bytes("opVal", 1)
		symx.Assert(ts.Insert(ctx, opKey, opVal) == nil, "Insert failed")
		cs2 = c06Set(cs2, opKey, opVal)
	}
	if symx.Cfg("iosib", 0) == 1 {
		tc := mkvs.New(nil, db, node.RootTypeIO)
		symx.Assert(tc.Insert(ctx, symx.Bytes("ioSibKey", 1), symx.Bytes("ioSibVal", 1)) == nil, "Insert failed")
		_, _, err := tc.Commit(ctx, ns, 2)
		symx.Assert(err == nil, "Commit of the competing IO root failed")
		tc.Close()
	}
	_, hs2, err := ts.Commit(ctx, ns, 2)
	symx.Assert(err == nil, "Commit of the state root of version 2 failed")
	ts.Close()
	s2 := node.Root{Namespace: ns, Version: 2, Type: node.RootTypeState, Hash: hs2}
	ik2, iv2 := symx.Bytes("ioKey2", 1), symx.Bytes("ioVal2", 1)
	ti2 := mkvs.New(nil, db, node.RootTypeIO)
	symx.Assert(ti2.Insert(ctx, ik2, iv2) == nil, "Insert failed")
	ci2 := c06Set(nil, ik2, iv2)
	if symx.Cfg("ion", 1) >= 2 {
		// a second entry, so that the IO root of version 2 has nodes besides its root node
		ik3, iv3 := symx.Bytes("ioKey3", 1), symx.Bytes("ioVal3", 1)
		symx.Assert(ti2.Insert(ctx, ik3, iv3) == nil, "Insert failed")
		ci2 = c06Set(ci2, ik3, iv3)
	}
	_, hi2, err := ti2.Commit(ctx, ns, 2)
	symx.Assert(err == nil, "Commit of the IO root of version 2 failed")
	ti2.Close()
	i2 := node.Root{Namespace: ns, Version: 2, Type: node.RootTypeIO, Hash: hi2}
	symx.Assert(db.Finalize([]node.Root{s2, i2}) == nil, "Finalize of version 2 failed")
	c06CheckRoot(ctx, db, s1, cs1, probe, "after finalizing version 2 (state root of version 1)")
	c06CheckRoot(ctx, db, i1, ci1, probe, "after finalizing version 2 (IO root of version 1)")
	c06CheckRoot(ctx, db, s2, cs2, probe, "after finalizing version 2 (state root)")
	c06CheckRoot(ctx, db, i2, ci2, probe, "after finalizing version 2 (IO root)")
	symx.Cover("two-versions")

	if symx.Bool("prune") {
		symx.Assert(db.Prune(1) == nil, "Prune of the earliest finalized version failed")
		symx.Assert(db.GetEarliestVersion() == 2, "earliest version not advanced by pruning")
		c06CheckRoot(ctx, db, s2, cs2, probe, "after pruning version 1 (state root)")
		c06CheckRoot(ctx, db, i2, ci2, probe, "after pruning version 1 (IO root)")
		symx.Cover("pruned")
	}
	symx.Cover("end")
}

// VerifC13Served (C13 on the real back end): for two consecutive finalized roots the write log the
// database serves for the pair (GetWriteLog), applied to a tree at the first root, gives exactly the
// second root. Version 2 is a symbolic batch on version 1, written by the tree that committed version 1
// or, with reopen, by a tree reopened at the first root; key lengths per cfg (digits of klens / oplens).
func VerifC13Served() {
	ctx := context.Background()
	var ns common.Namespace
	k := symx.Cfg("k", 2)
	nops := symx.Cfg("n", 2)
	digit := func(name string, i, n, def int) int {
		v := symx.Cfg(name, -1)
		if v < 0 {
			return def
		}
		for j := n - 1; j > i; j-- {
			v /= 10
		}
		return v % 10
	}
	db, err := New(&api.Config{Namespace: ns, MemoryOnly: true, NoFsync: true, MaxCacheSize: 16 * 1024 * 1024})
	symx.Assert(err == nil, "opening the node database failed")
	defer db.Close()
	t1 := mkvs.New(nil, db, node.RootTypeState)
	for i := 0; i < k; i++ {
		key, val := symx.Bytes(symx.N("key", i), digit("klens", i, k, 1)), symx.Bytes(symx.N("val", i), 1)
		symx.Assert(t1.Insert(ctx, key, val) == nil, "Insert failed")
	}
	_, h1, err := t1.Commit(ctx, ns, 1)
	symx.Assert(err == nil, "Commit of version 1 failed")
	r1 := node.Root{Namespace: ns, Version: 1, Type: node.RootTypeState, Hash: h1}
	symx.Assert(db.Finalize([]node.Root{r1}) == nil, "Finalize of version 1 failed")
	if symx.Cfg("reopen", 0) == 1 && symx.Bool("reopen") {
		t1.Close()
		t1 = mkvs.NewWithRoot(nil, db, r1)
		symx.Cover("reopened")
	}
	for i := 0; i < nops; i++ {
		key := symx.Bytes(symx.N("opKey", i), digit("oplens", i, nops, 1))
		if symx.Bool(symx.N("opRemove", i)) {
			symx.Assert(t1.Remove(ctx, key) == nil, "Remove failed")
		} else {
			symx.Assert(t1.Insert(ctx, key, symx.Bytes(symx.N("opVal", i), 1)) == nil, "Insert failed")
		}
	}
	// cfg pending=1: a competing root of version 2 is committed first (so the announced root is not the first
	// candidate of its version), and the write log is also requested while version 2 is not finalized yet
	pending := symx.Cfg("pending", 0) == 1
	if pending {
		tc := mkvs.NewWithRoot(nil, db, r1)
		for i := 0; i < symx.Cfg("cn", 1); i++ {
			key := symx.Bytes(symx.N("compKey", i), 1)
			if symx.Bool(symx.N("compRemove", i)) {
				symx.Assert(tc.Remove(ctx, key) == nil, "Remove failed")
			} else {
				symx.Assert(tc.Insert(ctx, key, symx.Bytes(symx.N("compVal", i), 1)) == nil, "Insert failed")
			}
		}
		_, _, err := tc.Commit(ctx, ns, 2)
		symx.Assert(err == nil, "Commit of the competing root failed")
		tc.Close()
	}
	_, h2, err := t1.Commit(ctx, ns, 2)
	symx.Assert(err == nil, "Commit of version 2 failed")
	t1.Close()
	r2 := node.Root{Namespace: ns, Version: 2, Type: node.RootTypeState, Hash: h2}
	if pending {
		if pit, err := db.GetWriteLog(ctx, r1, r2); err == nil {
			rp := mkvs.NewWithRoot(nil, db, r1)
			if rp.ApplyWriteLog(ctx, pit) == nil {
				_, got, err := rp.Commit(ctx, ns, 2, mkvs.NoPersist())
				symx.Assert(err != nil || got == h2, "write log served for a root that is not finalized yet does not lead to that root")
			}
			rp.Close()
			symx.Cover("pending-served")
		} else {
			symx.Cover("pending-refused")
		}
	}
	symx.Assert(db.Finalize([]node.Root{r2}) == nil, "Finalize of version 2 failed")

	it, err := db.GetWriteLog(ctx, r1, r2)
	if err != nil {
		// an unchanged root (the batch had no net effect) needs no write log: the back ends store none for it
		symx.Assert(h1 == h2, "the database does not serve the write log of two consecutive finalized roots that differ")
		symx.Cover("unchanged-root")
		return
	}
	replica := mkvs.NewWithRoot(nil, db, r1)
	defer replica.Close()
	symx.Assert(replica.ApplyWriteLog(ctx, it) == nil, "applying the served write log failed")
	_, got, err := replica.Commit(ctx, ns, 2, mkvs.NoPersist())
	symx.Assert(err == nil, "Commit of the replica failed")
	symx.Assert(got == h2, "served write log applied to the first root does not give the second root")
	symx.Cover("end")
}

// VerifC13ServedIO (C13 on the real back end, IO root type): an IO root is built from the empty root of its own
// version; the write log the database serves for the pair (empty root, IO root), applied to an empty IO tree,
// gives exactly the IO root - before and after finalisation.
func VerifC13ServedIO() {
	ctx := context.Background()
	var ns common.Namespace
	db, err := New(&api.Config{Namespace: ns, MemoryOnly: true, NoFsync: true, MaxCacheSize: 16 * 1024 * 1024})
	symx.Assert(err == nil, "opening the node database failed")
	defer db.Close()
	empty := node.Root{Namespace: ns, Version: 1, Type: node.RootTypeIO}
	empty.Hash.Empty()
	t1 := mkvs.New(nil, db, node.RootTypeIO)
	for i := 0; i < symx.Cfg("k", 2); i++ {
		key := symx.Bytes(symx.N("key", i), 1)
		if i > 0 && symx.Bool(symx.N("remove", i)) {
			symx.Assert(t1.Remove(ctx, key) == nil, "Remove failed")
		} else {
			symx.Assert(t1.Insert(ctx, key, symx.Bytes(symx.N("val", i), 1)) == nil, "Insert failed")
		}
	}
	_, h1, err := t1.Commit(ctx, ns, 1)
	symx.Assert(err == nil, "Commit of the IO root failed")
	t1.Close()
	r1 := node.Root{Namespace: ns, Version: 1, Type: node.RootTypeIO, Hash: h1}
	check := func(label string) {
		it, err := db.GetWriteLog(ctx, empty, r1)
		if err != nil {
			symx.Assert(h1 == empty.Hash, label+": the database does not serve the write log of an IO root")
			symx.Cover("unchanged-root")
			return
		}
		replica := mkvs.New(nil, nil, node.RootTypeIO)
		defer replica.Close()
		symx.Assert(replica.ApplyWriteLog(ctx, it) == nil, label+": applying the served write log failed")
		_, got, err := replica.Commit(ctx, ns, 1, mkvs.NoPersist())
		symx.Assert(err == nil && got == h1, label+": served write log applied to the empty root does not give the IO root")
	}
	check("before finalisation")
	symx.Assert(db.Finalize([]node.Root{r1}) == nil, "Finalize failed")
	check("after finalisation")
	symx.Cover("end")
}
