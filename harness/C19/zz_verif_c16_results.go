package stateless

// C16 (provider data on the stateless path): block results obtained from an
// untrusted provider - any number of per-transaction results, including more
// or fewer than the block has transactions, and absent (null) entries - are
// turned into transaction results or rejected with an error; the node does not
// crash. This is the path GetTransactionsWithResults takes for the latest
// trusted height, where the results cannot be checked against a header yet:
// NewBlockResultsMeta, then full.TransactionResultsFromCometBFT; and the
// verified path's verifyBlockResults hashing of the results.

import (
	abcitypes "github.com/cometbft/cometbft/abci/types"
	cmttypes "github.com/cometbft/cometbft/types"

	"github.com/oasisprotocol/oasis-core/go/common/cbor"
	consensusAPI "github.com/oasisprotocol/oasis-core/go/consensus/api"
	cmtAPI "github.com/oasisprotocol/oasis-core/go/consensus/cometbft/api"
	"github.com/oasisprotocol/oasis-core/go/consensus/cometbft/full"
	symx "github.com/oasisprotocol/oasis-core/go/internal/verifsymx"
)

func VerifC16ProviderResults() {
	const h = 5
	ntx := symx.Choose("transactions", 3)
	nres := symx.Choose("results", 4)
	txs := make([][]byte, ntx)
	for i := range txs {
		txs[i] = symx.Bytes(symx.N("tx", i), 2)
	}
	var meta cmtAPI.BlockResultsMeta
	for i := 0; i < nres; i++ {
		if symx.Bool(symx.N("nullResult", i)) {
			meta.TxsResults = append(meta.TxsResults, nil)
			continue
		}
		meta.TxsResults = append(meta.TxsResults, &abcitypes.ResponseDeliverTx{Code: symx.Uint32(symx.N("code", i)), GasUsed: symx.Int64(symx.N("gasUsed", i))})
	}
	provided := &consensusAPI.BlockResults{Height: h, Meta: cbor.Marshal(meta)}

	// latest trusted height: results are passed on after decoding only
	got, err := cmtAPI.NewBlockResultsMeta(provided)
	if err == nil {
		res, err := full.TransactionResultsFromCometBFT(h, txs, got.TxsResults)
		if err == nil {
			symx.Assert(len(res) == len(txs), "transaction results returned for a different number of transactions than the block has")
			symx.Cover("converted")
		} else {
			symx.Cover("rejected")
		}
	}
	// below the latest trusted height: hashed and compared with the next header
	lb := &cmttypes.LightBlock{SignedHeader: &cmttypes.SignedHeader{Header: &cmttypes.Header{Height: h}}}
	// (no cover point on the outcome: whether the symbolic hash equals the modelled hash of the results cannot be
	// reproduced by a native replay, which computes the real hash; the subject here is only that it does not crash)
	_, _ = verifyBlockResults(provided, symx.Bytes("resultsHash", 32), lb)
	symx.Cover("end")
}
