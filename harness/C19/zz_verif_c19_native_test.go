package stateless

// Native-only part of the C19 block-results harness: a real light client over a
// trusted store pre-filled with the repository's recorded light blocks
// (core_test.go: testLightBlock / testNextLightBlock / testResults); no networking.

import (
	"context"
	"os"
	"path/filepath"
	"strings"
	"time"

	cmtdb "github.com/cometbft/cometbft-db"
	cmtlight "github.com/cometbft/cometbft/light"
	cmtlightdb "github.com/cometbft/cometbft/light/store/db"
	cmttypes "github.com/cometbft/cometbft/types"
	"github.com/libp2p/go-libp2p/core"

	cmtAPI "github.com/oasisprotocol/oasis-core/go/consensus/cometbft/api"
	cdb "github.com/oasisprotocol/oasis-core/go/consensus/cometbft/db"
	"github.com/oasisprotocol/oasis-core/go/consensus/cometbft/light"
)

type c19NopP2P struct{}

func (c19NopP2P) BlockPeer(core.PeerID)                      {}
func (c19NopP2P) RegisterProtocol(core.ProtocolID, int, int) {}
func (c19NopP2P) Host() core.Host                            { return nil }

func init() {
	c19NativeSetup = func(above bool) (*Core, *cmttypes.LightBlock, *cmtAPI.BlockResultsMeta) {
		must := func(err error) {
			if err != nil {
				panic(err)
			}
		}
		clb, err := testLightBlock()
		must(err)
		lb, err := light.DecodeLightBlock(clb)
		must(err)
		lbs := []*cmttypes.LightBlock{lb}
		if above {
			clb2, err := testNextLightBlock()
			must(err)
			lb2, err := light.DecodeLightBlock(clb2)
			must(err)
			lbs = append(lbs, lb2)
		}
		results, err := testResults()
		must(err)
		honest, err := cmtAPI.NewBlockResultsMeta(results)
		must(err)

		dir, err := os.MkdirTemp("", "verif-c19-light")
		must(err)
		db, err := cdb.New(filepath.Join(dir, "consensus/light"), false)
		must(err)
		store := cmtlightdb.New(cmtdb.NewPrefixDB(db, []byte{}), "")
		for _, b := range lbs {
			must(store.SaveLightBlock(b))
		}
		must(db.Close())
		latest := lbs[len(lbs)-1]
		chainContext := strings.Repeat("c", 64)
		lc, err := light.NewClient(context.Background(), chainContext, c19NopP2P{}, light.Config{
			GenesisDocument: &cmttypes.GenesisDoc{ChainID: cmtAPI.CometBFTChainID(chainContext)},
			TrustOptions:    cmtlight.TrustOptions{Period: 24 * time.Hour, Height: latest.Height, Hash: latest.Hash()},
			DataDir:         dir,
		})
		must(err)
		// (the wrapped CometBFT client is created lazily on first verification; the block is in the trusted store)
		_, err = lc.VerifyLightBlockAt(context.Background(), lb.Height)
		must(err)
		return NewCore(nil, lc, Config{}), lb, honest
	}
}
