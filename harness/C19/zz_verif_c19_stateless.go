package stateless

// C19 (2): the transaction list and the state root a stateless node returns
// are bound to the light-client verified header.

import (
	"bytes"
	"time"

	cmttypes "github.com/cometbft/cometbft/types"

	"github.com/oasisprotocol/oasis-core/go/common/cbor"
	"github.com/oasisprotocol/oasis-core/go/common/crypto/hash"
	consensusAPI "github.com/oasisprotocol/oasis-core/go/consensus/api"
	cmtAPI "github.com/oasisprotocol/oasis-core/go/consensus/cometbft/api"
	"github.com/oasisprotocol/oasis-core/go/consensus/api/transaction"
	symx "github.com/oasisprotocol/oasis-core/go/internal/verifsymx"
)

func c19List(prefix string, n, l int) [][]byte {
	txs := make([][]byte, n)
	for i := range txs {
		txs[i] = symx.Bytes(symx.N(prefix, i), l)
	}
	return txs
}

// VerifC19Transactions: the header commits to list A; the provider returns list B.
func VerifC19Transactions() {
	l := symx.Cfg("txlen", 2)
	na := symx.Choose("lenA", symx.Cfg("n", 3)+1)
	nb := symx.Choose("lenB", symx.Cfg("n", 3)+1)
	a := c19List("a", na, l)
	b := c19List("b", nb, l)
	var data cmttypes.Data
	for _, tx := range a {
		data.Txs = append(data.Txs, tx)
	}
	lb := &cmttypes.LightBlock{SignedHeader: &cmttypes.SignedHeader{Header: &cmttypes.Header{Height: 5, DataHash: data.Hash()}}}
	err := verifyTransactions(b, lb)
	same := na == nb
	for i := 0; same && i < na; i++ {
		same = bytes.Equal(a[i], b[i])
	}
	if err == nil {
		symx.Assert(same, "a transaction list different from the one committed in the verified header was accepted")
		symx.Cover("accepted")
	} else {
		symx.Assert(!same, "the header's own transaction list was rejected")
		symx.Cover("rejected")
	}
}

// VerifC19StateRoot: the state root is taken from the block metadata transaction (the last one).
func VerifC19StateRoot() {
	var root hash.Hash
	copy(root[:], symx.Bytes("root", 32))
	method := transaction.MethodName(consensusAPI.MethodMeta)
	if symx.Bool("otherMethod") {
		method = "staking.Transfer"
	}
	tx := &transaction.Transaction{Method: method, Body: cbor.Marshal(&consensusAPI.BlockMetadata{StateRoot: root})}
	sig := &transaction.SignedTransaction{}
	sig.Blob = cbor.Marshal(tx)
	metaTx := cbor.Marshal(sig)
	other := cbor.Marshal(&transaction.SignedTransaction{})
	txs := [][]byte{other, metaTx}
	got, err := stateRootFromBlockTxs(txs)
	if method == consensusAPI.MethodMeta {
		symx.Assert(err == nil && got == root, "state root not taken from the block metadata transaction")
		symx.Cover("ok")
	} else {
		symx.Assert(err != nil, "a non-metadata transaction accepted as block metadata")
		symx.Cover("wrong-method")
	}
	_, err = stateRootFromBlockTxs(nil)
	symx.Assert(err != nil, "empty transaction list accepted")
}

// VerifC19Block: a block response is accepted only if every verifiable field
// equals what the light-client verified header implies.
func VerifC19Block() {
	mkCommit := func(round int32) *cmttypes.Commit {
		return &cmttypes.Commit{
			Height: 4, Round: round,
			BlockID: cmttypes.BlockID{Hash: bytes.Repeat([]byte{3}, 32), PartSetHeader: cmttypes.PartSetHeader{Total: 1, Hash: bytes.Repeat([]byte{4}, 32)}},
			Signatures: []cmttypes.CommitSig{{BlockIDFlag: cmttypes.BlockIDFlagAbsent}},
		}
	}
	commit := mkCommit(0)
	hdr := cmttypes.Header{
		ChainID:        "verif",
		Height:         5,
		Time:           time.Unix(1700000000, 0).UTC(),
		AppHash:        symx.Bytes("app", 32),
		ValidatorsHash: bytes.Repeat([]byte{7}, 32),
		LastCommitHash: commit.Hash(),
	}
	cmtBlk := &cmttypes.Block{Header: hdr, LastCommit: commit}
	honest, err := cmtAPI.NewBlock(cmtBlk)
	symx.Assert(err == nil, "NewBlock failed")
	lb := &cmttypes.LightBlock{SignedHeader: &cmttypes.SignedHeader{Header: &cmtBlk.Header}}
	herr := verifyBlock(honest, lb)
	symx.Observe("herr", herr)
	symx.Assert(herr == nil, "the block derived from the verified header is rejected")
	symx.Cover("honest-accepted")

	forged := *honest
	switch symx.Choose("alter", 10) {
	case 0:
		forged.Height = int64(symx.Uint64("height"))
		symx.Assume(forged.Height != honest.Height)
	case 1:
		b := symx.Bytes("hash", 32)
		copy(forged.Hash[:], b)
		symx.Assume(forged.Hash != honest.Hash)
	case 2:
		// any shift, including sub-second ones
		dts := []time.Duration{time.Nanosecond, 500 * time.Millisecond, 999999999 * time.Nanosecond, time.Second, 3 * time.Second, -time.Nanosecond}
		forged.Time = honest.Time.Add(dts[symx.Choose("dt", len(dts))])
	case 3:
		forged.StateRoot.Version = symx.Uint64("version")
		symx.Assume(forged.StateRoot.Version != honest.StateRoot.Version)
	case 4:
		forged.StateRoot.Type = 2
	case 5:
		b := symx.Bytes("root", 32)
		copy(forged.StateRoot.Hash[:], b)
		symx.Assume(forged.StateRoot.Hash != honest.StateRoot.Hash)
	case 6:
		forged.StateRoot.Namespace[0] = 1 + symx.Uint8("ns")%255
	case 7: // another header inside the metadata
		other := hdr
		other.AppHash = symx.Bytes("otherApp", 32)
		symx.Assume(!bytes.Equal(other.AppHash, hdr.AppHash))
		ob, _ := other.ToProto().Marshal()
		lc, _ := commit.ToProto().Marshal()
		forged.Meta = cbor.Marshal(cmtAPI.BlockMeta{Header: ob, LastCommit: lc})
	case 9: // a last commit with other signatures inside the metadata
		oc := mkCommit(0)
		oc.Signatures = append(oc.Signatures, cmttypes.CommitSig{BlockIDFlag: cmttypes.BlockIDFlagAbsent})
		hb, _ := hdr.ToProto().Marshal()
		lc, _ := oc.ToProto().Marshal()
		forged.Meta = cbor.Marshal(cmtAPI.BlockMeta{Header: hb, LastCommit: lc})
	case 8: // the same signatures under another commit round inside the metadata
		oc := mkCommit(int32(1 + symx.Choose("round", 3)))
		hb, _ := hdr.ToProto().Marshal()
		lc, _ := oc.ToProto().Marshal()
		forged.Meta = cbor.Marshal(cmtAPI.BlockMeta{Header: hb, LastCommit: lc})
	}
	symx.Assert(verifyBlock(&forged, lb) != nil, "a block response altered in a verifiable field was accepted")
	symx.Cover("forged-rejected")
}

// VerifC19BlockProbe: feasibility probe for verifyBlock (header hash / proto marshalling under the engine).
func VerifC19BlockProbe() {
	hdr := &cmttypes.Header{Height: int64(5), ChainID: "verif", AppHash: symx.Bytes("app", 32)}
	lb := &cmttypes.LightBlock{SignedHeader: &cmttypes.SignedHeader{Header: hdr}}
	blk := &consensusAPI.Block{Height: 5}
	_ = verifyBlock(blk, lb)
	symx.Cover("end")
}
