package merkle

// C19 (1): transaction inclusion proofs. Every proof issued for a block's
// transactions verifies for its own transaction; a proof (honest, altered or
// fabricated) that verifies against the block's root for some transaction bytes
// implies those bytes are one of the block's transactions.

import (
	"bytes"

	cmtmerkle "github.com/cometbft/cometbft/crypto/merkle"

	"github.com/oasisprotocol/oasis-core/go/common/cbor"
	symx "github.com/oasisprotocol/oasis-core/go/internal/verifsymx"
)

func c19Txs(n, l int) [][]byte {
	txs := make([][]byte, n)
	for i := range txs {
		txs[i] = symx.Bytes(symx.N("tx", i), l)
	}
	return txs
}

// VerifC19Complete: n symbolic transactions; every issued proof verifies.
func VerifC19Complete() {
	n := symx.Cfg("n", 3)
	txs := c19Txs(n, symx.Cfg("txlen", 2))
	root, proofs := ProofsForTransactions(txs)
	symx.Assert(len(proofs) == n, "number of proofs differs from the number of transactions")
	symx.Assert(bytes.Equal(root, RootHashOfTransactions(txs)), "proof root differs from the transactions root")
	for i := range txs {
		symx.Assert(VerifyTransaction(proofs[i], root, txs[i]) == nil, "issued proof does not verify for its own transaction")
	}
	symx.Cover("end")
}

// VerifC19Sound: an adversarial proof for arbitrary transaction bytes.
func VerifC19Sound() {
	n := symx.Cfg("n", 3)
	l := symx.Cfg("txlen", 2)
	txs := c19Txs(n, l)
	root, proofs := ProofsForTransactions(txs)
	// all hashes of the honest tree: leaves and inner nodes appear as leaf hashes / aunts of the issued proofs
	real := [][]byte{root}
	for _, raw := range proofs {
		var p cmtmerkle.Proof
		symx.Assert(cbor.Unmarshal(raw, &p) == nil, "issued proof does not decode")
		real = append(real, p.LeafHash)
		real = append(real, p.Aunts...)
	}
	pick := func(name string) []byte {
		if j := symx.Choose(name+".of", len(real)+1); j < len(real) {
			return append([]byte{}, real[j]...)
		}
		h := symx.Bytes(name, 32)
		for _, r := range real {
			symx.Assume(!bytes.Equal(h, r)) // exhaustive split: not the hash of any node of the honest tree
		}
		return h
	}
	forged := cmtmerkle.Proof{
		Total:    int64(symx.Uint64("total")),
		Index:    int64(symx.Uint64("index")),
		LeafHash: pick("leafHash"),
	}
	na := symx.Choose("aunts", symx.Cfg("maxaunts", 2)+1)
	for i := 0; i < na; i++ {
		forged.Aunts = append(forged.Aunts, pick(symx.N("aunt", i)))
	}
	tx := symx.Bytes("claimed", l+symx.Cfg("extra", 0))
	err := VerifyTransaction(cbor.Marshal(&forged), root, tx)
	if err != nil {
		symx.Cover("rejected")
		return
	}
	symx.Cover("accepted")
	member := false
	for i := range txs {
		if bytes.Equal(tx, txs[i]) {
			member = true
		}
	}
	symx.Assert(member, "a proof verified for bytes that are not a transaction of the block")
}
