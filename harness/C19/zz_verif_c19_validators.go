package stateless

// C19 (validators): for a height one above the latest verifiable one the
// stateless client asks the provider for the validator set and hands it out only
// if it is the NEXT validator set committed in the verified header of the height
// before - in particular at a boundary where the validator set changes.
//
// Under the engine the protobuf codec and the set hash are harness functions
// (redirects: light.DecodeValidators, ValidatorSet.Hash): a set is identified by a
// tag and hashes to a digest unique to the tag. Natively real validator sets, the
// real protobuf codec and the real Merkle hash run.

import (
	"crypto/ed25519"

	cmted "github.com/cometbft/cometbft/crypto/ed25519"
	cmttypes "github.com/cometbft/cometbft/types"

	consensusAPI "github.com/oasisprotocol/oasis-core/go/consensus/api"
	"github.com/oasisprotocol/oasis-core/go/consensus/cometbft/light"
	symx "github.com/oasisprotocol/oasis-core/go/internal/verifsymx"
)

var c19Sets [2]*cmttypes.ValidatorSet

func c19MakeSet(tag byte) *cmttypes.ValidatorSet {
	if symx.Symbolic() {
		return &cmttypes.ValidatorSet{}
	}
	seed := make([]byte, ed25519.SeedSize)
	seed[0] = tag
	pk := cmted.PubKey(ed25519.NewKeyFromSeed(seed).Public().(ed25519.PublicKey))
	return cmttypes.NewValidatorSet([]*cmttypes.Validator{cmttypes.NewValidator(pk, int64(10+tag))})
}

func c19SetTag(vs *cmttypes.ValidatorSet) byte {
	for i, s := range c19Sets {
		if s == vs {
			return byte(i + 1)
		}
	}
	symx.Unreachable("hash of an unknown validator set")
	return 0
}

func vC19SetHash(vs *cmttypes.ValidatorSet) []byte {
	h := make([]byte, 32)
	h[0], h[31] = c19SetTag(vs), 0xee
	return h
}

func vC19DecodeValidators(v *consensusAPI.Validators) (*cmttypes.ValidatorSet, error) {
	if len(v.Meta) == 1 && v.Meta[0] >= 1 && v.Meta[0] <= 2 {
		return c19Sets[v.Meta[0]-1], nil
	}
	return nil, consensusAPI.ErrInvalidArgument
}

func c19Encode(i int, height int64) *consensusAPI.Validators {
	if symx.Symbolic() {
		return &consensusAPI.Validators{Height: height, Meta: []byte{byte(i + 1)}}
	}
	v, err := light.EncodeValidators(c19Sets[i], height)
	symx.Assert(err == nil, "EncodeValidators failed")
	return v
}

func VerifC19NextValidators() {
	c19Sets = [2]*cmttypes.ValidatorSet{c19MakeSet(1), c19MakeSet(2)}
	const h = 7
	// the verified header of height h: current set 0; the next set is the same or, at a change boundary, set 1
	next := symx.Choose("nextSet", 2)
	lb := &cmttypes.LightBlock{SignedHeader: &cmttypes.SignedHeader{Header: &cmttypes.Header{
		Height: h, ValidatorsHash: c19Sets[0].Hash(), NextValidatorsHash: c19Sets[next].Hash(),
	}}}
	provided := symx.Choose("providedSet", 2)
	height := int64(h) + int64(symx.Choose("providedHeightOffset", 3)) // h, h+1, h+2
	c := &Core{}
	err := c.verifyNextValidators(c19Encode(provided, height), lb)
	if err == nil {
		symx.Cover("accepted")
		symx.Assert(height == h+1, "validators of another height accepted")
		symx.Assert(provided == next, "a validator set that is not the next set of the verified header was accepted")
	} else {
		symx.Cover("rejected")
		symx.Assert(!(height == h+1 && provided == next), "the genuine next validator set was rejected")
	}
	symx.Cover("end")
}
