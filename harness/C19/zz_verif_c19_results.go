package stateless

// C19 (block results): (*Core).verifyBlockResults hands block results obtained
// from the provider to its caller only if they hash to the LastResultsHash of
// the verified header of the next height - for every height strictly below
// the latest trusted one (for the latest trusted height itself only the height
// is compared; the repository documents this as a known limitation).
//
// The light client is the environment. Under the engine its two methods used
// here are redirected to the stubs below (latest trusted height = H + a symbolic
// delta; the verified header of height H+1 commits to the honest results).
// Natively a real light client is built over a trusted store pre-filled with
// the repository's recorded light blocks (zz_verif_c19_native_test.go).

import (
	"context"

	abcitypes "github.com/cometbft/cometbft/abci/types"
	cmttypes "github.com/cometbft/cometbft/types"

	"github.com/oasisprotocol/oasis-core/go/common/cache/lru"
	"github.com/oasisprotocol/oasis-core/go/common/cbor"
	"github.com/oasisprotocol/oasis-core/go/common/logging"
	consensusAPI "github.com/oasisprotocol/oasis-core/go/consensus/api"
	cmtAPI "github.com/oasisprotocol/oasis-core/go/consensus/cometbft/api"
	"github.com/oasisprotocol/oasis-core/go/consensus/cometbft/light"
	symx "github.com/oasisprotocol/oasis-core/go/internal/verifsymx"
)

// engine-mode environment
var (
	c19LastTrusted int64
	c19NextHeader  *cmttypes.LightBlock
)

func vC19LastTrustedHeight(*light.Client) (int64, error) { return c19LastTrusted, nil }

func vC19VerifyLightBlockAt(_ *light.Client, _ context.Context, height int64) (*cmttypes.LightBlock, error) {
	symx.Assert(height == c19NextHeader.Height, "results hash taken from a header of another height")
	return c19NextHeader, nil
}

// c19NativeSetup (set by the native-only file) returns a Core over a real light client whose
// latest trusted height is H (above=false) or H+1 (above=true), the verified light block of
// height H and the honest results of height H.
var c19NativeSetup func(above bool) (*Core, *cmttypes.LightBlock, *cmtAPI.BlockResultsMeta)

// VerifC19Results.
func VerifC19Results() {
	delta := symx.Int64("lastTrustedMinusHeight")
	symx.Assume(delta >= -2 && delta <= 3)

	var c *Core
	var lb *cmttypes.LightBlock
	var honest *cmtAPI.BlockResultsMeta
	if symx.Symbolic() {
		const h = 5
		honest = &cmtAPI.BlockResultsMeta{TxsResults: []*abcitypes.ResponseDeliverTx{{
			Code: symx.Uint32("code"), Data: symx.Bytes("data", 1), GasWanted: symx.Int64("gasWanted"), GasUsed: symx.Int64("gasUsed"),
		}}}
		lb = &cmttypes.LightBlock{SignedHeader: &cmttypes.SignedHeader{Header: &cmttypes.Header{Height: h}}}
		c19NextHeader = &cmttypes.LightBlock{SignedHeader: &cmttypes.SignedHeader{Header: &cmttypes.Header{
			Height: h + 1, LastResultsHash: cmttypes.NewResults(honest.TxsResults).Hash(),
		}}}
		c19LastTrusted = h + delta
		// (NewCore also starts a block notifier goroutine, which this function does not use)
		c = &Core{resultsHashCache: lru.New(lru.Capacity(resultsHashCacheCapacity, false)), logger: logging.GetLogger("cometbft/stateless/core")}
	} else {
		c, lb, honest = c19NativeSetup(delta > 0)
	}

	// the provider's answer: the honest results with the first transaction's deterministic fields altered
	dCode, dWanted, dUsed := symx.Uint32("alterCode"), symx.Int64("alterGasWanted"), symx.Int64("alterGasUsed")
	dData := symx.Uint8("alterData")
	dHeight := symx.Int64("alterHeight")
	symx.Assume(dHeight >= -1 && dHeight <= 1)
	first := *honest.TxsResults[0]
	first.Code += dCode
	first.GasWanted += dWanted
	first.GasUsed += dUsed
	if dData != 0 {
		data := append([]byte{}, first.Data...)
		if len(data) == 0 {
			data = []byte{0}
		}
		data[0] ^= dData
		first.Data = data
	}
	served := cmtAPI.BlockResultsMeta{
		TxsResults:       append([]*abcitypes.ResponseDeliverTx{&first}, honest.TxsResults[1:]...),
		BeginBlockEvents: honest.BeginBlockEvents,
		EndBlockEvents:   honest.EndBlockEvents,
	}
	altered := dCode != 0 || dWanted != 0 || dUsed != 0 || dData != 0
	results := &consensusAPI.BlockResults{Height: lb.Height + dHeight, Meta: cbor.Marshal(served)}

	_, err := c.verifyBlockResults(context.Background(), results, lb)
	if err == nil {
		symx.Cover("accepted")
		symx.Assert(dHeight == 0, "block results of another height accepted")
		if delta > 0 {
			symx.Assert(!altered, "altered block results accepted for a height below the latest trusted one")
			symx.Cover("accepted-below-latest")
		} else {
			symx.Cover("accepted-at-latest") // (only the height is bound there: documented limitation, #6210)
		}
	} else {
		symx.Cover("rejected")
		symx.Assert(altered || dHeight != 0, "the results committed by the next verified header were rejected"+c19ErrText(err))
	}
}

// c19ErrText: the error text in native runs (diagnostics only; labels stay fixed under the engine).
func c19ErrText(err error) string {
	if symx.Symbolic() || err == nil {
		return ""
	}
	return ": " + err.Error()
}
