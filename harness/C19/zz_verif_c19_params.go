package stateless

// C19 (parameters): consensus parameters obtained from the provider are handed
// out only if they are the ones committed in the verified header of the
// requested height: a response altered in any field - of the CometBFT parameters
// (Meta), of the backend-agnostic parameters, or in its height - is rejected.
//
// Real code: (*Core).verifyParameters with the real protobuf codec of
// cmtproto.ConsensusParams (generated code), ConsensusParamsFromProto,
// ValidateBasic, ConsensusParams.Hash; the verified header commits to the hash of
// the honest parameters; the state query returns the honest backend-agnostic
// parameters (that path is verified separately through the state root).

import (
	"context"

	cmtproto "github.com/cometbft/cometbft/proto/tendermint/types"
	cmttypes "github.com/cometbft/cometbft/types"

	consensusAPI "github.com/oasisprotocol/oasis-core/go/consensus/api"
	"github.com/oasisprotocol/oasis-core/go/consensus/cometbft/consensus"
	consensusGenesis "github.com/oasisprotocol/oasis-core/go/consensus/genesis"
	symx "github.com/oasisprotocol/oasis-core/go/internal/verifsymx"
)

type c19ParamsQuery struct{ p *consensusGenesis.Parameters }

func (q *c19ParamsQuery) QueryAt(context.Context, int64) (consensus.Query, error) { return q, nil }
func (q *c19ParamsQuery) ChainContext(context.Context) (string, error)            { return "", nil }
func (q *c19ParamsQuery) ConsensusParameters(context.Context) (*consensusGenesis.Parameters, error) {
	return q.p, nil
}

func VerifC19Parameters() {
	const h = 9
	honest := cmttypes.DefaultConsensusParams()
	honest.Block.MaxBytes = 1 << 20
	honest.Block.MaxGas = 1000
	lb := &cmttypes.LightBlock{SignedHeader: &cmttypes.SignedHeader{Header: &cmttypes.Header{Height: h, ConsensusHash: honest.Hash()}}}
	oasisParams := &consensusGenesis.Parameters{MaxTxSize: 1000, MaxBlockSize: 1 << 20, MaxBlockGas: 1000}
	c := &Core{consensusQuerier: &c19ParamsQuery{p: oasisParams}}

	provided := *honest
	resp := &consensusAPI.Parameters{Height: h, Parameters: *oasisParams}
	alter := symx.Choose("alter", 8)
	switch alter {
	case 0: // honest
	case 1:
		provided.Block.MaxBytes = 1 + int64(symx.Uint16("maxBytes"))
		symx.Assume(provided.Block.MaxBytes != honest.Block.MaxBytes)
	case 2:
		provided.Block.MaxGas = int64(symx.Uint16("maxGas"))
		symx.Assume(provided.Block.MaxGas != honest.Block.MaxGas)
	case 3:
		provided.Evidence.MaxAgeNumBlocks = 1 + int64(symx.Uint16("evidenceMaxAgeNumBlocks"))
		symx.Assume(provided.Evidence.MaxAgeNumBlocks != honest.Evidence.MaxAgeNumBlocks)
	case 4:
		provided.Evidence.MaxBytes = int64(symx.Uint8("evidenceMaxBytes"))
		symx.Assume(provided.Evidence.MaxBytes != honest.Evidence.MaxBytes)
	case 5:
		provided.Version.App = uint64(symx.Uint16("appVersion"))
		symx.Assume(provided.Version.App != honest.Version.App)
	case 6:
		resp.Height = h + 1 - int64(symx.Choose("otherHeight", 2))*2 // h+1 or h-1
	case 7:
		resp.Parameters.MaxTxSize = uint64(symx.Uint16("maxTxSize"))
		symx.Assume(resp.Parameters.MaxTxSize != oasisParams.MaxTxSize)
	}
	pb := provided.ToProto()
	meta, err := (&pb).Marshal()
	symx.Assert(err == nil, "parameters do not marshal")
	resp.Meta = meta
	var _ cmtproto.ConsensusParams

	err = c.verifyParameters(context.Background(), resp, lb)
	if err == nil {
		symx.Cover("accepted")
		symx.Assert(alter == 0, "parameters altered in a field the response carries were accepted")
	} else {
		symx.Cover("rejected")
		symx.Assert(alter != 0, "the genuine parameters were rejected")
	}
	symx.Cover("end")
}
