package commitment

// C11 harness: the real commitment Pool (AddVerifiedExecutorCommitment,
// ProcessCommitments, SchedulerCommitment.Add) and scheduler.Committee driven
// by a symbolic script of commitments and timer events; every verdict is
// checked against the finalisation rule written from the property text over the
// list of commitments the pool accepted.

import (
	"github.com/oasisprotocol/oasis-core/go/common/crypto/hash"
	"github.com/oasisprotocol/oasis-core/go/common/crypto/signature"
	symx "github.com/oasisprotocol/oasis-core/go/internal/verifsymx"
	scheduler "github.com/oasisprotocol/oasis-core/go/scheduler/api"
)

type c11Commit struct {
	node, sched uint8 // identity selector bytes
	failure     bool
	result      uint8
	discrepancy bool // accepted while the pool was in discrepancy resolution
}

func c11Key(b uint8) signature.PublicKey {
	var pk signature.PublicKey
	pk[0] = b
	return pk
}

// VerifC11Script: W workers (ids 1..W), B backup workers (ids W+1..W+B; with
// cfg overlap=1 the first backup worker is also worker 1), outsider id 0.
func VerifC11Script() {
	W := symx.Cfg("W", 2)
	B := symx.Cfg("B", 2)
	n := symx.Cfg("n", 3)
	overlap := symx.Cfg("overlap", 0) == 1
	c := &scheduler.Committee{Kind: scheduler.KindComputeExecutor}
	isWorker := func(id uint8) bool { return id >= 1 && int(id) <= W }
	backupID := func(j int) uint8 {
		if overlap && j == 0 {
			return 1
		}
		return uint8(W + 1 + j)
	}
	isBackup := func(id uint8) bool {
		for j := 0; j < B; j++ {
			if backupID(j) == id {
				return true
			}
		}
		return false
	}
	for i := 1; i <= W; i++ {
		c.Members = append(c.Members, &scheduler.CommitteeNode{Role: scheduler.RoleWorker, PublicKey: c11Key(uint8(i))})
	}
	for j := 0; j < B; j++ {
		c.Members = append(c.Members, &scheduler.CommitteeNode{Role: scheduler.RoleBackupWorker, PublicKey: c11Key(backupID(j))})
	}
	round := symx.Uint64("round")
	allowed := symx.Uint16("allowedStragglers")
	symx.Assume(int(allowed) <= W)
	maxID := uint8(W + B)

	rankOf := func(id uint8) uint64 { // scheduling rank of worker id in this round
		return (round + uint64(id-1)) % uint64(W)
	}

	p := NewPool()
	var accepted []*c11Commit
	for i := 0; i < n; i++ {
		isProcess := false
		if script := symx.Cfg("script", -1); script >= 0 {
			// concrete step kinds: decimal digits of cfg script, 0 = add commitment, 1 = process
			d := script
			for k := n - 1; k > i; k-- {
				d /= 10
			}
			isProcess = d%10 == 1
		} else {
			isProcess = symx.Bool(symx.N("isProcess", i))
		}
		if isProcess {
			timeout := symx.Bool(symx.N("timeout", i))
			wasDiscrepancy := p.Discrepancy
			sc, err := p.ProcessCommitments(c, allowed, timeout)
			switch err {
			case nil:
				symx.Cover("finalized")
				symx.Assert(sc != nil && sc.Commitment != nil, "finalised without the scheduler's own commitment")
				s := sc.Commitment.NodeID[0]
				symx.Assert(isWorker(s) && sc.Commitment.Header.SchedulerID[0] == s, "finalised proposal is not from a scheduler in the committee")
				symx.Assert(!sc.Commitment.IsIndicatingFailure(), "finalised a failure")
				res := sc.Commitment.Header.Header.StateRoot[0]
				// no committed higher-priority scheduler
				for _, a := range accepted {
					if a.node == a.sched {
						symx.Assert(rankOf(a.sched) >= rankOf(s), "a lower-priority scheduler's proposal was preferred over a committed higher-priority one")
					}
				}
				if !wasDiscrepancy {
					agree, fail := 0, 0
					for _, a := range accepted {
						if a.sched != s || !isWorker(a.node) || a.discrepancy {
							continue
						}
						switch {
						case a.failure:
							fail++
						case a.result == res:
							agree++
						default:
							symx.Assert(false, "finalised by primary workers despite a dissenting result")
						}
					}
					symx.Assert(fail <= int(allowed), "finalised with more failures than allowed stragglers")
					symx.Assert(agree >= W-int(allowed), "finalised with fewer than (primary size - allowed stragglers) agreeing votes")
					symx.Cover("finalized-unanimous")
				} else {
					agree := 0
					for _, a := range accepted {
						if a.sched == s && isBackup(a.node) && !a.failure && a.result == res {
							agree++
						}
					}
					symx.Assert(2*agree > B, "finalised after discrepancy without a strict backup majority")
					symx.Cover("finalized-backup-majority")
				}
			case ErrStillWaiting:
				symx.Assert(!timeout, "round timer expired but the pool keeps waiting")
				symx.Cover("waiting")
			case ErrDiscrepancyDetected:
				symx.Assert(p.Discrepancy, "discrepancy reported but resolution not started")
				symx.Cover("discrepancy")
			case ErrNoSchedulerCommitment, ErrInsufficientVotes, ErrBadSchedulerCommitment:
				symx.Cover("round-fails")
			default:
				symx.Assert(false, "unexpected verdict")
			}
			continue
		}
		// add a commitment
		a := &c11Commit{node: symx.Uint8(symx.N("node", i)), sched: symx.Uint8(symx.N("sched", i)),
			failure: symx.Bool(symx.N("failure", i)), result: symx.Uint8(symx.N("result", i)), discrepancy: p.Discrepancy}
		symx.Assume(a.node <= maxID && a.sched <= maxID)
		symx.Assume(a.result == 1 || a.result == 2)
		// VerifyExecutorCommitment (outside this harness) never lets a scheduler submit a failure
		symx.Assume(!(a.failure && a.node == a.sched))
		ec := &ExecutorCommitment{NodeID: c11Key(a.node)}
		ec.Header.SchedulerID = c11Key(a.sched)
		ec.Header.Header.Round = round
		if a.failure {
			ec.Header.Failure = FailureUnknown
		} else {
			var root hash.Hash
			root[0] = a.result
			ec.Header.Header.StateRoot = &root
		}
		before := len(p.SchedulerCommitments)
		_ = before
		err := p.AddVerifiedExecutorCommitment(c, ec)
		member := isWorker(a.node) || isBackup(a.node)
		if err == nil {
			symx.Assert(member, "commitment from a non-member accepted")
			symx.Assert(isWorker(a.sched), "commitment for a scheduler outside the primary committee accepted")
			if p.Discrepancy {
				symx.Assert(isBackup(a.node), "non-backup commitment accepted during discrepancy resolution")
			}
			for _, o := range accepted {
				symx.Assert(!(o.node == a.node && o.sched == a.sched), "second vote of the same node for the same scheduler accepted")
			}
			accepted = append(accepted, a)
			symx.Cover("commit-accepted")
		} else {
			symx.Cover("commit-rejected")
		}
	}
	symx.Cover("end")
}
