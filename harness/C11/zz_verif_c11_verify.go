package commitment

// C11 (admission of commitments): the real VerifyExecutorCommitment, the step the
// roothash application runs before Pool.AddVerifiedExecutorCommitment. It
// discharges the assumptions of VerifC11Script: a commitment reaches the pool
// only if it was signed by the node it names, over exactly the presented header,
// for this runtime, for the round being decided (parent = the latest block), and a
// scheduler never indicates failure; only the scheduler's own commitment may
// carry runtime messages.
//
// Symbolic: latest block round, the round / previous hash / scheduler / failure
// the node signed, what the adversary changes after signing (round, previous
// hash, node id, scheduler id, runtime the signature was made for).

import (
	"context"

	"github.com/oasisprotocol/oasis-core/go/common"
	"github.com/oasisprotocol/oasis-core/go/common/cbor"
	"github.com/oasisprotocol/oasis-core/go/common/crypto/hash"
	"github.com/oasisprotocol/oasis-core/go/common/crypto/signature"
	memorySigner "github.com/oasisprotocol/oasis-core/go/common/crypto/signature/signers/memory"
	symx "github.com/oasisprotocol/oasis-core/go/internal/verifsymx"
	registry "github.com/oasisprotocol/oasis-core/go/registry/api"
	"github.com/oasisprotocol/oasis-core/go/roothash/api/block"
	"github.com/oasisprotocol/oasis-core/go/roothash/api/message"
)

func VerifC11Verify() {
	signature.UnsafeResetChainContext()
	signature.SetChainContext("aaaaaaaaaaaaaaaaaaaaaaaaaaaaaaaaaaaaaaaaaaaaaaaaaaaaaaaaaaaaaaaa")
	defer signature.UnsafeResetChainContext()
	rtID := common.NewTestNamespaceFromSeed([]byte("verif c11 runtime"), 0)
	otherRT := common.NewTestNamespaceFromSeed([]byte("verif c11 other runtime"), 0)
	rt := &registry.Runtime{ID: rtID}
	rt.Executor.MaxMessages = 1

	// the latest block of the runtime
	blk := block.NewGenesisBlock(rtID, 0)
	blk.Header.Round = symx.Uint64("blockRound")
	symx.Assume(blk.Header.Round < ^uint64(0))
	blk.Header.StateRoot[0] = symx.Uint8("blockState")
	parentHash := blk.Header.EncodedHash()

	// what the node signed
	var pk, schedPK signature.PublicKey
	var signer signature.Signer
	if symx.Symbolic() {
		pk[0], pk[31] = 1, 0x11
	} else {
		signer = memorySigner.NewTestSigner("verif C11 node")
		pk = signer.Public()
	}
	schedPK[0], schedPK[31] = 2, 0x11
	isScheduler := symx.Bool("isScheduler")
	if isScheduler {
		schedPK = pk
	}
	var hdr ExecutorCommitmentHeader
	hdr.SchedulerID = schedPK
	hdr.Header.Round = symx.Uint64("signedRound")
	switch symx.Choose("signedParent", 3) {
	case 0:
		hdr.Header.PreviousHash = parentHash
	case 1: // a different block with the same round
		other := *blk
		other.Header.StateRoot[0] ^= 0xff
		hdr.Header.PreviousHash = other.Header.EncodedHash()
	default:
		copy(hdr.Header.PreviousHash[:], symx.Bytes("arbitraryParent", 32))
	}
	failure := symx.Bool("failure")
	var msgs []message.Message
	if failure {
		hdr.Failure = FailureUnknown
	} else {
		var io, st, in hash.Hash
		st[0] = symx.Uint8("result")
		in.Empty()
		hdr.Header.IORoot, hdr.Header.StateRoot, hdr.Header.InMessagesHash = &io, &st, &in
		mh := message.MessagesHash(msgs)
		hdr.Header.MessagesHash = &mh
	}
	signedFor := rtID
	if symx.Bool("signedForOtherRuntime") {
		signedFor = otherRT
	}
	ec := &ExecutorCommitment{NodeID: pk, Header: hdr}
	if symx.Symbolic() {
		sigCtx, err := ExecutorSignatureContext.WithSuffix(signedFor.String())
		symx.Assert(err == nil, "WithSuffix failed")
		data, err := signature.PrepareSignerMessage(sigCtx, cbor.Marshal(hdr))
		symx.Assert(err == nil, "PrepareSignerMessage failed")
		copy(ec.Signature[:], symx.HonestSignature(pk[:], data))
	} else {
		symx.Assert(ec.Sign(signer, signedFor) == nil, "signing failed")
	}

	// what is presented
	alter := symx.Choose("alter", 5)
	switch alter {
	case 0:
	case 1:
		ec.Header.Header.Round = symx.Uint64("presentedRound")
		symx.Assume(ec.Header.Header.Round != hdr.Header.Round)
	case 2:
		ec.Header.Header.PreviousHash = parentHash
		symx.Assume(hdr.Header.PreviousHash != parentHash)
	case 3:
		ec.NodeID = schedPK
		symx.Assume(schedPK != pk)
	case 4:
		ec.Header.SchedulerID = pk
		symx.Assume(schedPK != pk)
	}

	err := VerifyExecutorCommitment(context.Background(), blk, rt, 1, ec, nil, nil)
	if err == nil {
		symx.Cover("accepted")
		symx.Assert(alter == 0, "a commitment altered after signing was accepted")
		symx.Assert(signedFor == rtID, "a commitment signed for another runtime was accepted")
		symx.Assert(ec.Header.Header.Round == blk.Header.Round+1, "a commitment for a round other than the one being decided was accepted")
		symx.Assert(ec.Header.Header.PreviousHash == parentHash, "a commitment not based on the latest block was accepted")
		symx.Assert(!(failure && isScheduler), "a scheduler's failure indication was accepted")
	} else {
		symx.Cover("rejected")
		honest := alter == 0 && signedFor == rtID && hdr.Header.Round == blk.Header.Round+1 && hdr.Header.PreviousHash == parentHash && !(failure && isScheduler)
		symx.Assert(!honest, "an honest commitment for the round being decided was rejected")
	}
	symx.Cover("end")
}
