package registry

// Registry application, RegisterNode through the real handler (registerNode ->
// VerifyRegisterNodeArgs -> stake claims -> VerifyNodeUpdate -> SetNode / status),
// for
//   C08: a node registration that fails leaves the complete state as it was;
//   C17: after a successful registration the node is found under its identity
//        and sub-keys, and the owning entity's stake claim for the node is
//        exactly the one implied by the registered descriptor's roles; the
//        transaction signer must be the node.
//
// Symbolic: whether the node is already registered (and with which roles and
// expiration), the roles, expiration and consensus key of the new descriptor,
// who signs the transaction, the entity's escrow and the stake thresholds, epoch.

import (
	beacon "github.com/oasisprotocol/oasis-core/go/beacon/api"
	"github.com/oasisprotocol/oasis-core/go/common/cbor"
	"github.com/oasisprotocol/oasis-core/go/common/crypto/signature"
	memorySigner "github.com/oasisprotocol/oasis-core/go/common/crypto/signature/signers/memory"
	"github.com/oasisprotocol/oasis-core/go/common/node"
	"github.com/oasisprotocol/oasis-core/go/common/quantity"
	abciAPI "github.com/oasisprotocol/oasis-core/go/consensus/cometbft/api"
	registryState "github.com/oasisprotocol/oasis-core/go/consensus/cometbft/apps/registry/state"
	stakingState "github.com/oasisprotocol/oasis-core/go/consensus/cometbft/apps/staking/state"
	symx "github.com/oasisprotocol/oasis-core/go/internal/verifsymx"
	registry "github.com/oasisprotocol/oasis-core/go/registry/api"
	staking "github.com/oasisprotocol/oasis-core/go/staking/api"
)

// rJSONForLog stands for encoding/json.Marshal under the engine (redirect): in the code under test it only
// formats values for log messages.
func rJSONForLog(any) ([]byte, error) { return []byte("{}"), nil }

type rNodeKeys struct {
	pks     [6]signature.PublicKey // identity, consensus, P2P, TLS, VRF, alternative consensus key
	signers [6]signature.Signer
}

func rNewNodeKeys() *rNodeKeys {
	k := &rNodeKeys{}
	for i := range k.pks {
		if symx.Symbolic() {
			k.pks[i] = rPK(byte(20 + i))
		} else {
			k.signers[i] = memorySigner.NewTestSigner("verif regnode key " + string(rune('0'+i)))
			k.pks[i] = k.signers[i].Public()
		}
	}
	return k
}

func (k *rNodeKeys) sign(i int, blob []byte) signature.Signature {
	var out signature.Signature
	out.PublicKey = k.pks[i]
	if symx.Symbolic() {
		msg, err := signature.PrepareSignerMessage(registry.RegisterNodeSignatureContext, blob)
		rMust(err, "PrepareSignerMessage")
		copy(out.Signature[:], symx.HonestSignature(k.pks[i][:], msg))
		return out
	}
	s, err := signature.Sign(k.signers[i], registry.RegisterNodeSignatureContext, blob)
	rMust(err, "signing")
	return *s
}

// rNodeRoles: 0 validator, 1 compute worker (for the registered runtime), 2 both.
func rNodeRoles(sel int) node.RolesMask {
	return []node.RolesMask{node.RoleValidator, node.RoleComputeWorker, node.RoleValidator | node.RoleComputeWorker}[sel]
}

func (w *rWorld) nodeDescriptor(k *rNodeKeys, roles node.RolesMask, consensusKey int, exp beacon.EpochTime) (*node.Node, *node.MultiSignedNode) {
	addr := node.Address{IP: []byte{10, 0, 0, 1}, Port: 26656}
	n := &node.Node{
		Versioned:  cbor.NewVersioned(node.LatestNodeDescriptorVersion),
		ID:         k.pks[0],
		EntityID:   w.ents[0],
		Expiration: exp,
		Roles:      roles,
	}
	n.Consensus.ID = k.pks[consensusKey]
	n.Consensus.Addresses = []node.ConsensusAddress{{ID: k.pks[2], Address: addr}}
	n.P2P.ID = k.pks[2]
	n.P2P.Addresses = []node.Address{addr}
	n.TLS.PubKey = k.pks[3]
	n.VRF.ID = k.pks[4]
	if roles&node.RoleComputeWorker != 0 {
		n.Runtimes = []*node.Runtime{{ID: w.rtID}}
	}
	sn := &node.MultiSignedNode{}
	sn.Blob = cbor.Marshal(n)
	for _, i := range []int{0, consensusKey, 2, 3, 4} {
		sn.Signatures = append(sn.Signatures, k.sign(i, sn.Blob))
	}
	return n, sn
}

func VerifRegNode() {
	w := rNewWorld()
	w.setEntities()
	k := rNewNodeKeys()
	epoch := beacon.EpochTime(10) // (the mock application state's epoch)
	w.appState.UpdateMockApplicationStateConfig(&abciAPI.MockApplicationStateConfig{CurrentEpoch: epoch})

	rp, err := w.state.ConsensusParameters(w.ctx)
	rMust(err, "registry.ConsensusParameters")
	rp.DebugAllowUnroutableAddresses = true // (address routability is not the subject)
	rMust(w.state.SetConsensusParameters(w.ctx, rp), "registry.SetConsensusParameters")

	// thresholds for the node roles
	sp, err := w.stake.ConsensusParameters(w.ctx)
	rMust(err, "staking.ConsensusParameters")
	sp.Thresholds[staking.KindNodeValidator] = *rQ("thresholdValidator")
	sp.Thresholds[staking.KindNodeCompute] = *rQ("thresholdCompute")
	rMust(w.stake.SetConsensusParameters(w.ctx, sp), "staking.SetConsensusParameters")

	// the owning entity lists the node; its escrow is symbolic
	ent, sigEnt := w.entityDescriptor(0, []signature.PublicKey{k.pks[0]})
	rMust(w.state.SetEntity(w.ctx, ent, sigEnt), "SetEntity")
	entAddr := staking.NewAddress(ent.ID)
	bal := rQ("escrow0")
	rMust(w.stake.SetAccount(w.ctx, entAddr, &staking.Account{Escrow: staking.EscrowAccount{Active: staking.SharePool{Balance: *bal, TotalShares: *bal}}}), "SetAccount")
	if stakingState.AddStakeClaim(w.ctx, entAddr, registry.StakeClaimRegisterEntity, staking.GlobalStakeThresholds(staking.KindEntity)) != nil {
		symx.Assume(false)
	}
	// the runtime compute nodes register for (owned by entity 1)
	rt := w.runtimeDescriptor(registry.GovernanceEntity, 1)
	rMust(w.state.SetRuntime(w.ctx, rt, false), "SetRuntime")

	// the node may already be registered
	exists := symx.Bool("alreadyRegistered")
	var old *node.Node
	if exists {
		var oldSig *node.MultiSignedNode
		old, oldSig = w.nodeDescriptor(k, rNodeRoles(symx.Choose("oldRoles", 3)), 1, epoch+beacon.EpochTime(symx.Choose("oldExpirationOffset", 3))-1)
		rMust(w.state.SetNode(w.ctx, nil, old, oldSig), "SetNode")
		rMust(w.state.SetNodeStatus(w.ctx, old.ID, &registry.NodeStatus{}), "SetNodeStatus")
		if stakingState.AddStakeClaim(w.ctx, entAddr, registry.StakeClaimForNode(old.ID), registry.StakeThresholdsForNode(old, []*registry.Runtime{rt})) != nil {
			symx.Assume(false) // pre-state: the registered node's claim is covered
		}
	}

	newRoles := rNodeRoles(symx.Choose("newRoles", 3))
	consensusKey := 1
	if symx.Bool("consensusKeyChanged") {
		consensusKey = 5
	}
	nd, sn := w.nodeDescriptor(k, newRoles, consensusKey, epoch+beacon.EpochTime(symx.Choose("expirationOffset", 3)))
	signerIsNode := symx.Bool("txSignedByNode")

	before := w.snapshot()
	txCtx := w.appState.NewContext(abciAPI.ContextDeliverTx)
	if signerIsNode {
		txCtx.SetTxSigner(k.pks[0])
	} else {
		txCtx.SetTxSigner(w.ents[0])
	}
	st := registryState.NewMutableState(txCtx.State())
	err = w.app.registerNode(txCtx, st, sn)
	txCtx.Close()

	claim := registry.StakeClaimForNode(nd.ID)
	if err != nil {
		symx.Cover("node-failed")
		symx.Assert(rSame(before, w.snapshot()), "a failed node registration changed the consensus state")
		return
	}
	symx.Cover("node-registered")
	symx.Assert(signerIsNode, "node registration accepted from a transaction signer that is not the node")
	got, gerr := w.state.Node(w.ctx, nd.ID)
	symx.Assert(gerr == nil && got.Roles == newRoles && got.Consensus.ID.Equal(nd.Consensus.ID), "registered node record differs from the accepted descriptor")
	for _, key := range []signature.PublicKey{nd.Consensus.ID, nd.P2P.ID, nd.TLS.PubKey, nd.VRF.ID} {
		byKey, kerr := w.state.NodeBySubKey(w.ctx, key)
		symx.Assert(kerr == nil && byKey.ID.Equal(nd.ID), "registered node not found under one of its keys")
	}
	if exists {
		symx.Assert(old.Consensus.ID.Equal(nd.Consensus.ID), "an update changing the consensus key was accepted")
		symx.Assert(old.IsExpired(epoch) || nd.Roles&old.Roles != 0, "an update to disjoint roles of a live node was accepted")
	}
	// the claim for the node carries exactly the thresholds of the registered roles, and the escrow covers all claims
	acct, aerr := w.stake.Account(w.ctx, entAddr)
	rMust(aerr, "Account")
	have, ok := acct.Escrow.StakeAccumulator.Claims[claim]
	want := registry.StakeThresholdsForNode(nd, []*registry.Runtime{rt})
	symx.Assert(ok && len(have) == len(want), "stake claim of the registered node missing or of the wrong size")
	for i := range want {
		symx.Assert(have[i].Equal(&want[i]), "stake claim of the registered node does not match its roles")
	}
	symx.Assert(acct.Escrow.CheckStakeClaims(sp.Thresholds) == nil, "node registered although the entity's escrow does not cover its stake claims")
	var _ quantity.Quantity
	symx.Cover("end")
}
