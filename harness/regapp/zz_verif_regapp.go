package registry

// Registry application handlers on the real consensus state tree (mock
// application state), for
//   C08: a handler that fails leaves the state tree exactly as it was;
//   C17: an entity is never removed while it owns nodes or runtimes, and the
//        stake claims recorded in staking accounts are exactly those implied
//        by the registered entities and runtimes.
//
// Symbolic: escrow balances and stake thresholds (unbounded integers), the
// operation parameters (governance model, owning entity, caller) per step.

import (
	"bytes"
	"fmt"
	"time"

	beacon "github.com/oasisprotocol/oasis-core/go/beacon/api"
	"github.com/oasisprotocol/oasis-core/go/common"
	"github.com/oasisprotocol/oasis-core/go/common/cbor"
	"github.com/oasisprotocol/oasis-core/go/common/crypto/signature"
	memorySigner "github.com/oasisprotocol/oasis-core/go/common/crypto/signature/signers/memory"
	"github.com/oasisprotocol/oasis-core/go/common/entity"
	"github.com/oasisprotocol/oasis-core/go/common/node"
	"github.com/oasisprotocol/oasis-core/go/common/quantity"
	"github.com/oasisprotocol/oasis-core/go/common/version"
	abciAPI "github.com/oasisprotocol/oasis-core/go/consensus/cometbft/api"
	beaconState "github.com/oasisprotocol/oasis-core/go/consensus/cometbft/apps/beacon/state"
	consensusState "github.com/oasisprotocol/oasis-core/go/consensus/cometbft/apps/consensus/state"
	registryState "github.com/oasisprotocol/oasis-core/go/consensus/cometbft/apps/registry/state"
	stakingState "github.com/oasisprotocol/oasis-core/go/consensus/cometbft/apps/staking/state"
	"github.com/oasisprotocol/oasis-core/go/consensus/genesis"
	symx "github.com/oasisprotocol/oasis-core/go/internal/verifsymx"
	registry "github.com/oasisprotocol/oasis-core/go/registry/api"
	staking "github.com/oasisprotocol/oasis-core/go/staking/api"
)

func rQ(name string) *quantity.Quantity {
	q := quantity.NewQuantity()
	if err := q.FromBigInt(symx.Nat(name)); err != nil {
		symx.Unreachable("non-negative integer rejected by FromBigInt")
	}
	return q
}

func rPK(b byte) signature.PublicKey {
	var pk signature.PublicKey
	pk[0], pk[31] = b, 0x77
	return pk
}

type rWorld struct {
	appState abciAPI.MockApplicationState
	ctx      *abciAPI.Context
	app      *Application
	state    *registryState.MutableState
	stake    *stakingState.MutableState
	ents     []signature.PublicKey
	signers  []signature.Signer // native mode: real keys
	rtID     common.Namespace
}

// setEntities: two entity keys (concrete under the engine, real key pairs natively).
func (w *rWorld) setEntities() {
	for i := 0; i < 2; i++ {
		if symx.Symbolic() {
			w.ents = append(w.ents, rPK(byte(i+1)))
			w.signers = append(w.signers, nil)
		} else {
			s := memorySigner.NewTestSigner("verif regapp entity " + string(rune('0'+i)))
			w.ents = append(w.ents, s.Public())
			w.signers = append(w.signers, s)
		}
	}
}

// rDispatcher stands for the other applications subscribed to registry messages:
// with cfg veto=1 any subscriber may reject any published message (as the roothash
// application does for runtime descriptors exceeding its limits).
type rDispatcher struct{ n int }

var errRVeto = fmt.Errorf("verif: a subscriber rejected the message")

func (d *rDispatcher) Subscribe(any, abciAPI.MessageSubscriber) {}

func (d *rDispatcher) Publish(*abciAPI.Context, abciAPI.Message) (any, error) {
	d.n++
	if symx.Cfg("veto", 0) == 1 && symx.Bool(symx.N("veto", d.n)) {
		return nil, errRVeto
	}
	return nil, nil
}

func rMust(err error, what string) { symx.Assert(err == nil, what+" failed") }

func rNewWorld() *rWorld {
	w := &rWorld{}
	w.appState = abciAPI.NewMockApplicationState(&abciAPI.MockApplicationStateConfig{})
	w.ctx = w.appState.NewContext(abciAPI.ContextEndBlock)
	w.app = &Application{w.appState, &rDispatcher{}}
	w.state = registryState.NewMutableState(w.ctx.State())
	w.stake = stakingState.NewMutableState(w.ctx.State())
	rMust(w.stake.SetConsensusParameters(w.ctx, &staking.ConsensusParameters{
		Thresholds: map[staking.ThresholdKind]quantity.Quantity{
			staking.KindEntity:            *rQ("thresholdEntity"),
			staking.KindRuntimeCompute:    *rQ("thresholdRuntime"),
			staking.KindRuntimeKeyManager: *quantity.NewFromUint64(0),
			staking.KindNodeValidator:     *quantity.NewFromUint64(0),
		},
	}), "staking.SetConsensusParameters")
	rMust(w.state.SetConsensusParameters(w.ctx, &registry.ConsensusParameters{
		DebugAllowTestRuntimes: true,
		MaxRuntimeDeployments:  20,
		EnableRuntimeGovernanceModels: map[registry.RuntimeGovernanceModel]bool{
			registry.GovernanceEntity:  true,
			registry.GovernanceRuntime: true,
		},
	}), "registry.SetConsensusParameters")
	rMust(beaconState.NewMutableState(w.ctx.State()).SetConsensusParameters(w.ctx, &beacon.ConsensusParameters{Backend: beacon.BackendInsecure}), "beacon.SetConsensusParameters")
	rMust(consensusState.NewMutableState(w.ctx.State()).SetConsensusParameters(w.ctx, &genesis.Parameters{FeatureVersion: &version.Version{Major: 100}}), "consensus.SetConsensusParameters")
	w.rtID = common.NewTestNamespaceFromSeed([]byte("verif regapp runtime"), 0)
	return w
}

func (w *rWorld) entityDescriptor(i int, nodes []signature.PublicKey) (*entity.Entity, *entity.SignedEntity) {
	ent := &entity.Entity{Versioned: cbor.NewVersioned(entity.LatestDescriptorVersion), ID: w.ents[i], Nodes: nodes}
	// (nothing below verifies the entity's self-signature; the state stores the envelope as is)
	sig := &entity.SignedEntity{}
	sig.Blob = cbor.Marshal(ent)
	sig.Signature.PublicKey = ent.ID
	return ent, sig
}

// addEntity registers entity i directly in the state together with its stake claim,
// with a symbolic escrow balance that covers the claims it is given.
func (w *rWorld) addEntity(i int) {
	ent, sig := w.entityDescriptor(i, nil)
	rMust(w.state.SetEntity(w.ctx, ent, sig), "SetEntity")
	bal := rQ(symx.N("escrow", i))
	rMust(w.stake.SetAccount(w.ctx, staking.NewAddress(ent.ID), &staking.Account{
		Escrow: staking.EscrowAccount{Active: staking.SharePool{Balance: *bal, TotalShares: *bal}},
	}), "SetAccount")
	if stakingState.AddStakeClaim(w.ctx, staking.NewAddress(ent.ID), registry.StakeClaimRegisterEntity, staking.GlobalStakeThresholds(staking.KindEntity)) != nil {
		symx.Assume(false) // pre-state: a registered entity satisfies its own claim
	}
}

func (w *rWorld) runtimeDescriptor(model registry.RuntimeGovernanceModel, owner int) *registry.Runtime {
	return &registry.Runtime{
		Versioned:       cbor.NewVersioned(registry.LatestRuntimeDescriptorVersion),
		ID:              w.rtID,
		EntityID:        w.ents[owner],
		Kind:            registry.KindCompute,
		GovernanceModel: model,
		Executor:        registry.ExecutorParameters{GroupSize: 1, RoundTimeout: 5},
		TxnScheduler: registry.TxnSchedulerParameters{
			BatchFlushTimeout: time.Second,
			MaxBatchSize:      100,
			MaxBatchSizeBytes: 100_000_000,
			ProposerTimeout:   2 * time.Second,
		},
		Deployments:     []*registry.VersionInfo{{ValidFrom: 100}},
		AdmissionPolicy: registry.RuntimeAdmissionPolicy{AnyNode: &registry.AnyNodeRuntimeAdmissionPolicy{}},
	}
}

type rKV struct{ k, v []byte }

func (w *rWorld) snapshot() []rKV {
	var out []rKV
	it := w.ctx.State().NewIterator(w.ctx)
	defer it.Close()
	for it.Rewind(); it.Valid(); it.Next() {
		out = append(out, rKV{append([]byte{}, it.Key()...), it.Value()})
	}
	return out
}

func rSame(a, b []rKV) bool {
	if len(a) != len(b) {
		return false
	}
	for i := range a {
		if !bytes.Equal(a[i].k, b[i].k) || !bytes.Equal(a[i].v, b[i].v) {
			return false
		}
	}
	return true
}

func (w *rWorld) hasClaim(addr staking.Address, claim staking.StakeClaim) bool {
	acct, err := w.stake.Account(w.ctx, addr)
	rMust(err, "Account")
	_, ok := acct.Escrow.StakeAccumulator.Claims[claim]
	return ok
}

// checkRuntimeClaims: the runtime's claim sits on exactly the account that stakes for the registered runtime.
func (w *rWorld) checkRuntimeClaims(label string) {
	claim := registry.StakeClaimForRuntime(w.rtID)
	var want *staking.Address
	if rt, err := w.state.AnyRuntime(w.ctx, w.rtID); err == nil {
		want, _ = rt.StakingAddress()
	}
	addrs := []staking.Address{staking.NewAddress(w.ents[0]), staking.NewAddress(w.ents[1]), staking.NewRuntimeAddress(w.rtID)}
	for _, a := range addrs {
		has := w.hasClaim(a, claim)
		if want != nil && a == *want {
			symx.Assert(has, label+": the account staking for the registered runtime carries no claim for it")
		} else {
			symx.Assert(!has, label+": an account that does not stake for the runtime still carries its claim")
		}
	}
}

// VerifRegRuntime: n registerRuntime transactions for one runtime id.
func VerifRegRuntime() {
	w := rNewWorld()
	w.setEntities()
	w.addEntity(0)
	w.addEntity(1)
	// the runtime's own account (stakes under runtime governance)
	rb := rQ("escrowRuntime")
	rMust(w.stake.SetAccount(w.ctx, staking.NewRuntimeAddress(w.rtID), &staking.Account{
		Escrow: staking.EscrowAccount{Active: staking.SharePool{Balance: *rb, TotalShares: *rb}},
	}), "SetAccount")

	n := symx.Cfg("n", 2)
	for step := 0; step < n; step++ {
		model := registry.GovernanceEntity
		if symx.Choose(symx.N("model", step), 2) == 1 {
			model = registry.GovernanceRuntime
		}
		owner := symx.Choose(symx.N("owner", step), 2)
		caller := symx.Choose(symx.N("caller", step), 3) // entity 0, entity 1, the runtime itself
		rt := w.runtimeDescriptor(model, owner)

		before := w.snapshot()
		txCtx := w.appState.NewContext(abciAPI.ContextDeliverTx)
		callCtx := txCtx
		if caller < 2 {
			txCtx.SetTxSigner(w.ents[caller])
		} else {
			// (runtime-originated call: a message emitted by the runtime, executed with the runtime as caller)
			callCtx = txCtx.WithCallerAddress(staking.NewRuntimeAddress(w.rtID))
		}
		_, err := w.app.registerRuntime(callCtx, registryState.NewMutableState(callCtx.State()), rt)
		if callCtx != txCtx {
			callCtx.Close()
		}
		txCtx.Close()
		if err != nil {
			symx.Assert(rSame(before, w.snapshot()), "a failed RegisterRuntime changed the consensus state")
			symx.Cover("runtime-failed")
		} else {
			got, gerr := w.state.Runtime(w.ctx, w.rtID)
			symx.Assert(gerr == nil && got.GovernanceModel == model && got.EntityID.Equal(w.ents[owner]), "accepted runtime descriptor not stored")
			symx.Cover("runtime-ok")
			if step > 0 {
				symx.Cover("runtime-updated")
			}
		}
		w.checkRuntimeClaims("after RegisterRuntime")
		// the runtime-by-entity index names exactly the owning entity
		if rt2, err2 := w.state.AnyRuntime(w.ctx, w.rtID); err2 == nil {
			for i := range w.ents {
				has, herr := w.state.HasEntityRuntimes(w.ctx, w.ents[i])
				rMust(herr, "HasEntityRuntimes")
				symx.Assert(has == rt2.EntityID.Equal(w.ents[i]), "runtime-by-entity index differs from the registered runtime's owner")
			}
		}
	}
	symx.Cover("end")
}

// VerifRegEntity: one RegisterEntity / DeregisterEntity transaction by entity 0, which may own a node and/or a runtime.
func VerifRegEntity() {
	w := rNewWorld()
	w.setEntities()
	registered := symx.Bool("registered")
	if registered {
		w.addEntity(0)
	} else {
		bal := rQ("escrow0")
		rMust(w.stake.SetAccount(w.ctx, staking.NewAddress(w.ents[0]), &staking.Account{
			Escrow: staking.EscrowAccount{Active: staking.SharePool{Balance: *bal, TotalShares: *bal}},
		}), "SetAccount")
	}
	ownsNode := registered && symx.Bool("ownsNode")
	ownsRuntime := registered && symx.Bool("ownsRuntime")
	if ownsNode {
		nd := &node.Node{Versioned: cbor.NewVersioned(node.LatestNodeDescriptorVersion), ID: rPK(10), EntityID: w.ents[0], Expiration: 100, Roles: node.RoleValidator}
		nd.Consensus.ID, nd.P2P.ID, nd.TLS.PubKey, nd.VRF.ID = rPK(11), rPK(12), rPK(13), rPK(14)
		sn := &node.MultiSignedNode{}
		sn.Blob = cbor.Marshal(nd)
		rMust(w.state.SetNode(w.ctx, nil, nd, sn), "SetNode")
	}
	if ownsRuntime {
		rt := w.runtimeDescriptor(registry.GovernanceEntity, 0)
		// (a runtime without active nodes is suspended; it still belongs to its entity)
		rMust(w.state.SetRuntime(w.ctx, rt, symx.Bool("runtimeSuspended")), "SetRuntime")
		rMust(w.state.SetRuntimeOwner(w.ctx, rt.ID, rt.EntityID), "SetRuntimeOwner")
	}

	before := w.snapshot()
	txCtx := w.appState.NewContext(abciAPI.ContextDeliverTx)
	txCtx.SetTxSigner(w.ents[0])
	st := registryState.NewMutableState(txCtx.State())
	var err error
	op := symx.Choose("op", 2)
	switch op {
	case 0:
		err = w.app.deregisterEntity(txCtx, st)
	case 1:
		_, sig := w.entityDescriptor(0, []signature.PublicKey{rPK(10)})
		if symx.Symbolic() {
			// the handler opens the envelope; under the engine the entity's signature is an honest one
			msg, perr := signature.PrepareSignerMessage(registry.RegisterEntitySignatureContext, sig.Blob)
			rMust(perr, "PrepareSignerMessage")
			copy(sig.Signature.Signature[:], symx.HonestSignature(sig.Signature.PublicKey[:], msg))
		} else {
			ent, _ := w.entityDescriptor(0, []signature.PublicKey{rPK(10)})
			var serr error
			sig, serr = entity.SignEntity(w.signers[0], registry.RegisterEntitySignatureContext, ent)
			rMust(serr, "SignEntity")
		}
		err = w.app.registerEntity(txCtx, st, sig)
	}
	txCtx.Close()

	if err != nil {
		symx.Assert(rSame(before, w.snapshot()), "a failed entity transaction changed the consensus state")
		symx.Cover("entity-failed")
	}
	_, gerr := w.state.Entity(w.ctx, w.ents[0])
	exists := gerr == nil
	if op == 0 && err == nil {
		symx.Assert(!ownsNode && !ownsRuntime, "entity deregistered while it owns nodes or runtimes")
		symx.Assert(!exists, "deregistered entity still recorded")
		symx.Cover("deregistered")
	}
	if ownsNode || ownsRuntime {
		symx.Assert(exists, "an entity owning nodes or runtimes disappeared from the registry")
	}
	// the entity's claim is recorded exactly while the entity is registered
	symx.Assert(w.hasClaim(staking.NewAddress(w.ents[0]), registry.StakeClaimRegisterEntity) == exists, "entity stake claim differs from the entity's registration")
	symx.Cover("end")
}
