package abci

// C01 (multiplexer): replicas that execute the same chain through different
// paths of the real ABCI multiplexer compute the same application hash and the
// same per-transaction results at every height:
//   - the proposer (PrepareProposal, ProcessProposal of its own block, then
//     delivery from its cached results),
//   - a proposer whose own proposal was NOT decided (prepared one block,
//     delivers another),
//   - a validator that executed one or two proposals for the height before the
//     decided one is delivered (a second consensus round),
//   - a replica that only replays (BeginBlock / DeliverTx / EndBlock / Commit),
//   - a replica that is restarted after every block: all in-memory multiplexer
//     state is dropped and rebuilt from the latest root in its node database.
// The replicas differ in node-local configuration (minimum gas price, own key).
//
// Real code: abciMux.InitChain / PrepareProposal / ProcessProposal /
// executeProposal / BeginBlock / DeliverTx / EndBlock / Commit, system (block
// metadata) transactions, applicationState.doInitChain / doCommit /
// resetProposal / resetProposalIfChanged / workingStateRoot / NewContext,
// the real consensus state tree (mkvs) on a harness node database.
//
// Symbolic: transaction contents, which blocks are proposed and by whom, whether
// a height needs a second round, what the validator sees, local configuration.

import (
	"bytes"
	"context"
	"encoding/json"
	"time"

	"github.com/cometbft/cometbft/abci/types"
	cmtproto "github.com/cometbft/cometbft/proto/tendermint/types"
	"github.com/cosmos/gogoproto/proto"
	"github.com/eapache/channels"

	beacon "github.com/oasisprotocol/oasis-core/go/beacon/api"
	"github.com/oasisprotocol/oasis-core/go/common/cbor"
	"github.com/oasisprotocol/oasis-core/go/common/crypto/signature"
	memorySigner "github.com/oasisprotocol/oasis-core/go/common/crypto/signature/signers/memory"
	"github.com/oasisprotocol/oasis-core/go/common/identity"
	"github.com/oasisprotocol/oasis-core/go/common/logging"
	"github.com/oasisprotocol/oasis-core/go/common/quantity"
	consensus "github.com/oasisprotocol/oasis-core/go/consensus/api"
	"github.com/oasisprotocol/oasis-core/go/consensus/api/transaction"
	"github.com/oasisprotocol/oasis-core/go/consensus/cometbft/api"
	stakingapp "github.com/oasisprotocol/oasis-core/go/consensus/cometbft/apps/staking"
	cmtcrypto "github.com/oasisprotocol/oasis-core/go/consensus/cometbft/crypto"
	genesis "github.com/oasisprotocol/oasis-core/go/genesis/api"
	symx "github.com/oasisprotocol/oasis-core/go/internal/verifsymx"
	staking "github.com/oasisprotocol/oasis-core/go/staking/api"
	storage "github.com/oasisprotocol/oasis-core/go/storage/api"
	"github.com/oasisprotocol/oasis-core/go/storage/mkvs"
	nodedb "github.com/oasisprotocol/oasis-core/go/storage/mkvs/db/api"
)

const vC01Chain = "aaaaaaaaaaaaaaaaaaaaaaaaaaaaaaaaaaaaaaaaaaaaaaaaaaaaaaaaaaaaaaaa"

var vC01GenesisTime = time.Unix(1_700_000_000, 0).UTC()

// ---- environment pieces that are not the subject (node database, pruner, time source, signer) ----

type vC01Backend struct {
	storage.LocalBackend
	db *vMemDB
}

func (b *vC01Backend) NodeDB() nodedb.NodeDB { return b.db }

type vC01Pruner struct{ consensus.StatePruner }

func (vC01Pruner) Prune(uint64) error             { return nil }
func (vC01Pruner) GetLastRetainedVersion() uint64 { return 0 }

type vC01Time struct{ beacon.Backend }

func (vC01Time) GetBaseEpoch(context.Context) (beacon.EpochTime, error)    { return 1, nil }
func (vC01Time) GetEpoch(context.Context, int64) (beacon.EpochTime, error) { return 1, nil }
func (vC01Time) GetFutureEpoch(context.Context, int64) (*beacon.EpochTimeState, error) {
	return nil, nil
}

// vC01Signer signs with the engine's signature model (natively: a real key).
type vC01Signer struct {
	pk   signature.PublicKey
	real signature.Signer
}

func vC01NewSigner(id byte) *vC01Signer {
	if symx.Symbolic() {
		s := &vC01Signer{}
		s.pk[0], s.pk[31] = id, 0xc1
		return s
	}
	real := memorySigner.NewTestSigner("verif c01 mux signer " + string(rune('a'+id)))
	return &vC01Signer{pk: real.Public(), real: real}
}

func (s *vC01Signer) Public() signature.PublicKey { return s.pk }
func (s *vC01Signer) String() string              { return "[verif signer]" }
func (s *vC01Signer) Reset()                      {}
func (s *vC01Signer) ContextSign(ctx signature.Context, message []byte) ([]byte, error) {
	if s.real != nil {
		return s.real.ContextSign(ctx, message)
	}
	data, err := signature.PrepareSignerMessage(ctx, message)
	if err != nil {
		return nil, err
	}
	return symx.HonestSignature(s.pk[:], data), nil
}

// harness replacements (engine only, by redirect) of reflection based helpers
func vC01RingIn(*channels.RingChannel) chan<- interface{} { return make(chan interface{}, 4096) }

func vC01ParseGenesis(types.RequestInitChain) (*genesis.Document, error) { return vC01Genesis(), nil }

// vC01Genesis: with cfg staking=1 the genesis funds the user account and a second account.
func vC01Genesis() *genesis.Document {
	doc := &genesis.Document{Height: 1, Time: vC01GenesisTime, ChainID: "verif-c01"}
	if symx.Cfg("staking", 0) == 1 {
		user, other := staking.NewAddress(vC01UserKey()), staking.NewAddress(vC01NewSigner(8).Public())
		doc.Staking.Parameters.FeeSplitWeightPropose = *quantity.NewFromUint64(2)
		doc.Staking.Parameters.FeeSplitWeightVote = *quantity.NewFromUint64(1)
		doc.Staking.Parameters.FeeSplitWeightNextPropose = *quantity.NewFromUint64(1)
		doc.Staking.Parameters.MaxAllowances = 4
		doc.Staking.Parameters.Thresholds = map[staking.ThresholdKind]quantity.Quantity{}
		for _, k := range staking.ThresholdKinds {
			doc.Staking.Parameters.Thresholds[k] = *quantity.NewFromUint64(0)
		}
		doc.Staking.TotalSupply = *quantity.NewFromUint64(3000)
		doc.Staking.CommonPool = *quantity.NewFromUint64(1000)
		doc.Staking.Ledger = map[staking.Address]*staking.Account{
			user:  {General: staking.GeneralAccount{Balance: *quantity.NewFromUint64(1500)}},
			other: {General: staking.GeneralAccount{Balance: *quantity.NewFromUint64(500)}},
		}
	}
	return doc
}

func vC01UserKey() signature.PublicKey { return vC01NewSigner(9).Public() }

func vC01ChainContext(*genesis.Document) string { return vC01Chain }

// vC01ProtoEqual stands for gogoproto's reflection based proto.Equal on the two message types the multiplexer compares.
func vC01ProtoEqual(x, y proto.Message) bool {
	switch a := x.(type) {
	case *cmtproto.Header:
		b, ok := y.(*cmtproto.Header)
		return ok && a.Height == b.Height && a.Time.Equal(b.Time) && a.ChainID == b.ChainID &&
			bytes.Equal(a.ProposerAddress, b.ProposerAddress) && bytes.Equal(a.NextValidatorsHash, b.NextValidatorsHash) &&
			bytes.Equal(a.AppHash, b.AppHash) && bytes.Equal(a.DataHash, b.DataHash)
	case *types.Misbehavior:
		b, ok := y.(*types.Misbehavior)
		return ok && a.Type == b.Type && a.Height == b.Height && a.TotalVotingPower == b.TotalVotingPower &&
			bytes.Equal(a.Validator.Address, b.Validator.Address) && a.Validator.Power == b.Validator.Power && a.Time.Equal(b.Time)
	}
	symx.Unreachable("proto.Equal on an unexpected message type")
	return false
}

// ---- a small deterministic application whose results depend on the state before the block ----

var (
	vC01MethodSet = transaction.NewMethodName("verifc01", "Set", nil)
	vC01KeyBlocks = []byte("\xEEverif/blocks")
	vC01KeyInit   = []byte("\xEEverif/genesis")
	vC01KeyCommit = []byte("\xEEverif/lastcommit")
	vC01KeyKV     = []byte("\xEEverif/kv/")
)

type vC01App struct{}

func (vC01App) Name() string                      { return "000_verif_c01" }
func (vC01App) ID() uint8                         { return 0xEE }
func (vC01App) Methods() []transaction.MethodName { return []transaction.MethodName{vC01MethodSet} }
func (vC01App) Blessed() bool                     { return false }
func (vC01App) Dependencies() []string            { return nil }
func (vC01App) Subscribe()                        {}
func (vC01App) OnCleanup()                        {}

func (vC01App) InitChain(ctx *api.Context, _ types.RequestInitChain, _ *genesis.Document) error {
	if err := ctx.State().Insert(ctx, vC01KeyInit, []byte("genesis")); err != nil {
		return err
	}
	return ctx.State().Insert(ctx, vC01KeyBlocks, []byte{0})
}

func (vC01App) BeginBlock(ctx *api.Context) error {
	raw, err := ctx.State().Get(ctx, vC01KeyBlocks)
	if err != nil {
		return err
	}
	n := byte(0)
	if len(raw) == 1 {
		n = raw[0]
	}
	if err = ctx.State().Insert(ctx, vC01KeyBlocks, []byte{n + 1}); err != nil {
		return err
	}
	// what the block says about the previous commit and about time ends up in the state
	// (as the staking application's fee / reward logic makes it do)
	votes, signed := byte(0), byte(0)
	for _, v := range ctx.BlockContext().LastCommitInfo.Votes {
		votes++
		if v.SignedLastBlock {
			signed++
		}
	}
	return ctx.State().Insert(ctx, vC01KeyCommit, []byte{votes, signed, byte(ctx.Now().Unix())})
}

func (vC01App) ExecuteTx(ctx *api.Context, tx *transaction.Transaction) error {
	var body []byte
	if err := cbor.Unmarshal(tx.Body, &body); err != nil {
		return err
	}
	if len(body) != 2 {
		return consensus.ErrInvalidArgument
	}
	raw, err := ctx.State().Get(ctx, vC01KeyBlocks)
	if err != nil {
		return err
	}
	// the stored value and the returned data depend on the state the block started from
	value := append([]byte{body[1]}, raw...)
	if err = ctx.State().Insert(ctx, append(append([]byte{}, vC01KeyKV...), body[0]), value); err != nil {
		return err
	}
	ctx.EmitData(value)
	return nil
}

func (vC01App) EndBlock(*api.Context) (types.ResponseEndBlock, error) {
	return types.ResponseEndBlock{}, nil
}

// ---- replicas ----

type vC01Replica struct {
	mux     *abciMux
	signer  *vC01Signer
	address []byte
}

func vC01NewReplica(id byte) *vC01Replica {
	var root storage.Root
	root.Type = storage.RootTypeState
	root.Hash.Empty()
	return vC01OpenReplica(id, newVMemDB(), root)
}

// restart: the node process ends and a new one opens the same node database - every in-memory object of the
// multiplexer (proposal state, init state, cached parameters, trees) is rebuilt from the latest stored root,
// as newApplicationState / InitStateStorage do.
func (r *vC01Replica) restart(id byte) *vC01Replica {
	d := r.mux.state.storage.(*vC01Backend).db
	latest, _ := d.GetLatestVersion()
	roots, err := d.GetRootsForVersion(latest)
	symx.Assert(err == nil && len(roots) == 1, "node database does not hold exactly one root for the latest version")
	root := storage.Root{Version: latest, Type: storage.RootTypeState, Hash: roots[0].Hash}
	n := vC01OpenReplica(id, d, root)
	symx.Assert(n.mux.state.doCommitOrInitChainLocked() == nil, "reloading consensus parameters after restart failed")
	return n
}

func vC01OpenReplica(id byte, d *vMemDB, root storage.Root) *vC01Replica {
	signer := vC01NewSigner(id)
	s := &applicationState{
		logger:          logging.GetLogger("abci-mux/state"),
		ctx:             context.Background(),
		cancelCtx:       func() {},
		initialHeight:   1,
		canonicalState:  mkvs.NewWithRoot(nil, d, root, mkvs.WithoutWriteLog()),
		checkState:      mkvs.NewWithRoot(nil, d, root, mkvs.WithoutWriteLog()),
		stateRoot:       root,
		storage:         &vC01Backend{db: d},
		statePruner:     vC01Pruner{},
		prunerClosedCh:  make(chan struct{}),
		blockCtx:        api.NewBlockContext(api.BlockInfo{}),
		timeSource:      vC01Time{},
		identity:        &identity.Identity{NodeSigner: signer, ConsensusSigner: signer},
		metricsClosedCh: make(chan struct{}),
	}
	if symx.Symbolic() {
		s.prunerNotifyCh = new(channels.RingChannel) // (its In() is a harness function under the engine)
	} else {
		s.prunerNotifyCh = channels.NewRingChannel(1)
	}
	// node-local configuration: differs between replicas, must not matter
	s.minGasPrice = *quantity.NewFromUint64(uint64(symx.Uint8(symx.N("localMinGasPrice", int(id)))))
	s.ownTxSigner = signer.Public()
	s.ownTxSignerAddress = staking.NewAddress(signer.Public())
	mux := &abciMux{
		logger:       logging.GetLogger("abci-mux"),
		state:        s,
		appsByName:   make(map[string]api.Application),
		appsByMethod: make(map[transaction.MethodName]api.Application),
		md:           newMessageDispatcher(),
	}
	mux.md.Subscribe(api.MessageExecuteSubcall, mux)
	symx.Assert(mux.doRegister(vC01App{}) == nil, "doRegister failed")
	if symx.Cfg("staking", 0) == 1 {
		// the real staking application under the multiplexer: fee authentication, transfers, fee disbursement
		app := stakingapp.New(s, mux.md)
		symx.Assert(mux.doRegister(app) == nil, "doRegister(staking) failed")
		app.Subscribe()
		s.txAuthHandler = app
	}
	pk := signer.Public()
	return &vC01Replica{mux: mux, signer: signer, address: []byte(cmtcrypto.PublicKeyToCometBFT(&pk).Address())}
}

func (r *vC01Replica) initChain() []byte {
	req := types.RequestInitChain{Time: vC01GenesisTime, ChainId: "verif-c01", InitialHeight: 1}
	if !symx.Symbolic() {
		raw, err := json.Marshal(vC01Genesis())
		symx.Assert(err == nil, "genesis document does not marshal")
		req.AppStateBytes = raw
	}
	return r.mux.InitChain(req).AppHash
}

type vC01Block struct {
	votes    []types.VoteInfo
	height   int64
	time     time.Time
	proposer []byte
	txs      [][]byte
	hash     []byte
}

func (r *vC01Replica) propose(height int64, tag byte, txs [][]byte, votes []types.VoteInfo) *vC01Block {
	blk := &vC01Block{height: height, time: vC01GenesisTime.Add(time.Duration(height) * time.Second), proposer: r.address, hash: []byte{byte(height), tag, 0x77}, votes: votes}
	var ext types.ExtendedCommitInfo
	for _, v := range votes {
		ext.Votes = append(ext.Votes, types.ExtendedVoteInfo{Validator: v.Validator, SignedLastBlock: v.SignedLastBlock})
	}
	resp := r.mux.PrepareProposal(types.RequestPrepareProposal{MaxTxBytes: 1 << 20, Txs: txs, Height: height, Time: blk.time, ProposerAddress: r.address, LocalLastCommit: ext})
	symx.Assert(len(resp.Txs) == len(txs)+1, "prepared proposal does not carry all transactions plus the block metadata")
	blk.txs = resp.Txs
	return blk
}

func (r *vC01Replica) process(blk *vC01Block) bool {
	resp := r.mux.ProcessProposal(types.RequestProcessProposal{Txs: blk.txs, Hash: blk.hash, Height: blk.height, Time: blk.time, ProposerAddress: blk.proposer, ProposedLastCommit: types.CommitInfo{Votes: blk.votes}})
	return resp.Status == types.ResponseProcessProposal_ACCEPT
}

type vC01Result struct {
	appHash []byte
	txs     []types.ResponseDeliverTx
}

func (r *vC01Replica) deliver(blk *vC01Block) *vC01Result {
	r.mux.BeginBlock(types.RequestBeginBlock{Hash: blk.hash, Header: cmtproto.Header{ChainID: "verif-c01", Height: blk.height, Time: blk.time, ProposerAddress: blk.proposer}, LastCommitInfo: types.CommitInfo{Votes: blk.votes}})
	res := &vC01Result{}
	for _, tx := range blk.txs {
		res.txs = append(res.txs, r.mux.DeliverTx(types.RequestDeliverTx{Tx: tx}))
	}
	r.mux.EndBlock(types.RequestEndBlock{Height: blk.height})
	res.appHash = r.mux.Commit().Data
	return res
}

func vC01SameResult(a, b *vC01Result) bool {
	if !bytes.Equal(a.appHash, b.appHash) || len(a.txs) != len(b.txs) {
		return false
	}
	for i := range a.txs {
		x, y := &a.txs[i], &b.txs[i]
		if x.Code != y.Code || x.Codespace != y.Codespace || !bytes.Equal(x.Data, y.Data) || x.GasUsed != y.GasUsed || x.GasWanted != y.GasWanted {
			return false
		}
	}
	return true
}

// vC01StakingTx: a transfer by the user with a symbolic amount and fee (nonce = number of blocks decided so far).
func vC01StakingTx(user *vC01Signer, name string, nonce uint64) []byte {
	other := staking.NewAddress(vC01NewSigner(8).Public())
	fee := &transaction.Fee{Amount: *quantity.NewFromUint64(uint64(symx.Uint8(name + "Fee"))), Gas: 1000}
	tx := staking.NewTransferTx(nonce, fee, &staking.Transfer{To: other, Amount: *quantity.NewFromUint64(8 * uint64(symx.Uint8(name+"Amount")))})
	sigTx, err := transaction.Sign(user, tx)
	symx.Assert(err == nil, "transaction.Sign failed")
	return cbor.Marshal(sigTx)
}

func vC01Tx(user *vC01Signer, name string, key byte, nonce uint64) []byte {
	// (the key is fixed per height and proposer, the value is symbolic: tree shapes are not the subject here)
	tx := transaction.NewTransaction(nonce, nil, vC01MethodSet, []byte{key, symx.Uint8(name)})
	sigTx, err := transaction.Sign(user, tx)
	symx.Assert(err == nil, "transaction.Sign failed")
	return cbor.Marshal(sigTx)
}

// VerifC01Mux: cfg heights (default 2).
func VerifC01Mux() {
	signature.UnsafeResetChainContext()
	signature.SetChainContext(vC01Chain)
	defer signature.UnsafeResetChainContext()
	heights := symx.Cfg("heights", 2)
	user := vC01NewSigner(9)
	a, b, v, r, rs := vC01NewReplica(1), vC01NewReplica(2), vC01NewReplica(3), vC01NewReplica(4), vC01NewReplica(5)
	all := []*vC01Replica{a, b, v, r, rs}
	var genesisHash []byte
	for i, n := range all {
		h := n.initChain()
		if i == 0 {
			genesisHash = h
		}
		symx.Assert(bytes.Equal(h, genesisHash), "replicas disagree on the genesis application hash")
	}
	for h := int64(1); h <= int64(heights); h++ {
		// round 0: A proposes; with secondRound the round fails and B's different block is decided in round 1
		// the previous commit as the block carries it: two validators, each may have been absent
		votes := []types.VoteInfo{
			{Validator: types.Validator{Address: a.address, Power: 1}, SignedLastBlock: symx.Bool(symx.N("signedA", int(h)))},
			{Validator: types.Validator{Address: b.address, Power: 1}, SignedLastBlock: symx.Bool(symx.N("signedB", int(h)))},
		}
		// (with the staking application authenticating transactions the user's nonce advances by two per block)
		var nonce uint64
		withStaking := symx.Cfg("staking", 0) == 1
		if withStaking {
			nonce = uint64(2 * (h - 1))
		}
		txsA := [][]byte{vC01Tx(user, symx.N("txA", int(h)), byte(16*h+1), nonce)}
		txsB := [][]byte{vC01Tx(user, symx.N("txB", int(h)), byte(16*h+2), nonce)}
		if withStaking {
			txsA = append(txsA, vC01StakingTx(user, symx.N("xferA", int(h)), nonce+1))
			txsB = append(txsB, vC01StakingTx(user, symx.N("xferB", int(h)), nonce+1))
		}
		blkA := a.propose(h, 1, txsA, votes)
		decided := blkA
		secondRound := symx.Bool(symx.N("secondRound", int(h)))
		sawFirst := symx.Bool(symx.N("validatorSawFirst", int(h)))
		if sawFirst {
			symx.Assert(v.process(blkA), "a valid proposal was rejected by a validator")
		}
		if secondRound {
			blkB := b.propose(h, 2, txsB, votes)
			symx.Assert(b.process(blkB), "proposer rejected its own proposal")
			symx.Assert(v.process(blkB), "a valid proposal was rejected by a validator that executed another proposal before")
			symx.Assert(a.process(blkB), "a valid proposal was rejected by a node that had prepared another one")
			decided = blkB
			symx.Cover("second-round")
			// cfg rounds=3: round 1 may fail as well; A then proposes a third block (its third proposal of the height:
			// one prepared, one processed, one prepared) and every node has executed two undecided proposals before it
			if symx.Cfg("rounds", 2) >= 3 && symx.Bool(symx.N("thirdRound", int(h))) {
				txsC := [][]byte{vC01Tx(user, symx.N("txC", int(h)), byte(16*h+3), nonce)}
				if withStaking {
					txsC = append(txsC, vC01StakingTx(user, symx.N("xferC", int(h)), nonce+1))
				}
				blkC := a.propose(h, 3, txsC, votes)
				symx.Assert(a.process(blkC), "proposer rejected its own proposal")
				symx.Assert(v.process(blkC), "a valid proposal was rejected by a validator that executed two other proposals before")
				symx.Assert(b.process(blkC), "a valid proposal was rejected by a node that had prepared another one")
				decided = blkC
				symx.Cover("third-round")
			}
		} else {
			symx.Assert(a.process(blkA), "proposer rejected its own proposal")
			if symx.Bool(symx.N("otherProcesses", int(h))) {
				symx.Assert(b.process(blkA), "a valid proposal was rejected")
			}
			if !sawFirst {
				symx.Assert(v.process(blkA), "a valid proposal was rejected by a validator")
			}
		}
		var ref *vC01Result
		for i, n := range all {
			res := n.deliver(decided)
			if i == 0 {
				ref = res
				symx.Assert(len(res.txs) == len(decided.txs) && res.txs[len(res.txs)-1].Code == types.CodeTypeOK, "the block metadata transaction failed")
				symx.Assert(withStaking || res.txs[0].Code == types.CodeTypeOK, "a valid transaction failed")
				continue
			}
			symx.Assert(vC01SameResult(ref, res), "replicas executing the same block through different paths computed different results")
		}
		// the fifth replica is restarted after every block (cfg restart=0 switches that off)
		if symx.Cfg("restart", 1) == 1 {
			all[4] = all[4].restart(5)
			symx.Cover("restarted")
		}
	}
	symx.Cover("end")
}
