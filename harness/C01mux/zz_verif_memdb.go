package abci

// vMemDB: a harness-side in-memory node database (the real back ends are
// Badger based and outside the engine's reach). It stores what the real back
// ends store: marshalled nodes by hash, roots, and write logs in the hashed form
// (key + hash of the inserted leaf) that is revived through the node store.

import (
	"context"

	"github.com/oasisprotocol/oasis-core/go/common/crypto/hash"
	db "github.com/oasisprotocol/oasis-core/go/storage/mkvs/db/api"
	"github.com/oasisprotocol/oasis-core/go/storage/mkvs/node"
	"github.com/oasisprotocol/oasis-core/go/storage/mkvs/writelog"
)

type vMemNode struct {
	h    hash.Hash
	data []byte
}

type vMemLog struct {
	start, end node.Root
	log        db.HashedDBWriteLog
}

type vMemDB struct {
	nodes   []vMemNode
	roots   []node.Root
	logs    []vMemLog
	commits int
	getNode int // number of GetNode calls (lazy loads)
}

func newVMemDB() *vMemDB { return &vMemDB{} }

func (d *vMemDB) lookup(h hash.Hash) []byte {
	for i := range d.nodes {
		if d.nodes[i].h == h {
			return d.nodes[i].data
		}
	}
	return nil
}

func (d *vMemDB) GetNode(_ node.Root, ptr *node.Pointer) (node.Node, error) {
	if ptr == nil || !ptr.IsClean() {
		panic("vMemDB: attempted to get invalid pointer from node database")
	}
	d.getNode++
	data := d.lookup(ptr.Hash)
	if data == nil {
		return nil, db.ErrNodeNotFound
	}
	return node.UnmarshalBinary(data)
}

func (d *vMemDB) GetWriteLog(_ context.Context, startRoot, endRoot node.Root) (writelog.Iterator, error) {
	for _, l := range d.logs {
		if l.start.Equal(&startRoot) && l.end.Equal(&endRoot) {
			var out writelog.WriteLog
			for _, e := range l.log {
				if e.InsertedHash == nil {
					out = append(out, writelog.LogEntry{Key: e.Key, Value: nil})
					continue
				}
				data := d.lookup(*e.InsertedHash)
				if data == nil {
					return nil, db.ErrNodeNotFound
				}
				n, err := node.UnmarshalBinary(data)
				if err != nil {
					return nil, err
				}
				leaf, ok := n.(*node.LeafNode)
				if !ok {
					return nil, db.ErrNodeNotFound
				}
				out = append(out, writelog.LogEntry{Key: e.Key, Value: leaf.Value})
			}
			return writelog.NewStaticIterator(out), nil
		}
	}
	return nil, db.ErrWriteLogNotFound
}

func (d *vMemDB) GetLatestVersion() (uint64, bool) {
	if len(d.roots) == 0 {
		return 0, false
	}
	return d.roots[len(d.roots)-1].Version, true
}
func (d *vMemDB) GetEarliestVersion() uint64 { return 0 }
func (d *vMemDB) GetRootsForVersion(v uint64) ([]node.Root, error) {
	var out []node.Root
	for _, r := range d.roots {
		if r.Version == v {
			out = append(out, r)
		}
	}
	return out, nil
}
func (d *vMemDB) StartMultipartInsert(uint64) error { return nil }
func (d *vMemDB) AbortMultipartInsert() error       { return nil }
func (d *vMemDB) HasRoot(root node.Root) bool {
	for i := range d.roots {
		if d.roots[i].Equal(&root) {
			return true
		}
	}
	return false
}
func (d *vMemDB) Finalize([]node.Root) error { return nil }
func (d *vMemDB) Prune(uint64) error         { return nil }
func (d *vMemDB) Compact() error             { return nil }
func (d *vMemDB) Size() (int64, error)       { return 0, nil }
func (d *vMemDB) Sync() error                { return nil }
func (d *vMemDB) Close()                     {}

type vMemBatch struct {
	db.BaseBatch
	d       *vMemDB
	oldRoot node.Root
	pending []vMemNode
	log     db.HashedDBWriteLog
}

func (d *vMemDB) NewBatch(oldRoot node.Root, _ uint64, _ bool) (db.Batch, error) {
	return &vMemBatch{d: d, oldRoot: oldRoot}, nil
}

func (b *vMemBatch) PutNode(ptr *node.Pointer) error {
	data, err := ptr.Node.MarshalBinary()
	if err != nil {
		return err
	}
	b.pending = append(b.pending, vMemNode{h: ptr.Node.GetHash(), data: data})
	return nil
}

func (b *vMemBatch) PutWriteLog(writeLog writelog.WriteLog, annotations writelog.Annotations) error {
	b.log = db.MakeHashedDBWriteLog(writeLog, annotations)
	return nil
}

func (b *vMemBatch) RemoveNodes([]*node.Pointer) error { return nil }

func (b *vMemBatch) Commit(root node.Root) error {
	b.d.nodes = append(b.d.nodes, b.pending...)
	b.d.roots = append(b.d.roots, root)
	b.d.logs = append(b.d.logs, vMemLog{start: b.oldRoot, end: root, log: b.log})
	b.d.commits++
	b.pending = nil
	return b.BaseBatch.Commit(root)
}

func (b *vMemBatch) VisitCleanNode(*node.Pointer, *node.Pointer) error { return nil }
func (b *vMemBatch) VisitDirtyNode(*node.Pointer, *node.Pointer) error { return nil }
func (b *vMemBatch) Reset()                                             { b.pending = nil; b.log = nil }
