package scheduler

// C01 (kernel): the outcome of the validator election does not depend on Go's
// map iteration order. The election is run twice on identical state with the
// same RNG draws ("same entropy"), while the engine picks the iteration order of
// every ranged-over map independently in the two runs; the elected set, the
// voting powers, the rewardable entities and the returned entity set must agree.

import (
	beacon "github.com/oasisprotocol/oasis-core/go/beacon/api"
	"github.com/oasisprotocol/oasis-core/go/common/crypto/signature"
	"github.com/oasisprotocol/oasis-core/go/common/node"
	"github.com/oasisprotocol/oasis-core/go/common/quantity"
	abciAPI "github.com/oasisprotocol/oasis-core/go/consensus/cometbft/api"
	schedulerState "github.com/oasisprotocol/oasis-core/go/consensus/cometbft/apps/scheduler/state"
	stakingState "github.com/oasisprotocol/oasis-core/go/consensus/cometbft/apps/staking/state"
	symx "github.com/oasisprotocol/oasis-core/go/internal/verifsymx"
	scheduler "github.com/oasisprotocol/oasis-core/go/scheduler/api"
	staking "github.com/oasisprotocol/oasis-core/go/staking/api"
)

func c01Key(b byte) signature.PublicKey {
	var pk signature.PublicKey
	pk[0] = b
	pk[31] = 0x01
	return pk
}

type c01Run struct {
	pending    map[signature.PublicKey]*scheduler.Validator
	rewardable map[staking.Address]struct{}
	entities   map[staking.Address]struct{}
	err        error
}

// c01Elect builds the state from the given stakes and runs one election.
func c01Elect(stakes []*quantity.Quantity, owners []int, params *scheduler.ConsensusParameters) *c01Run {
	appState := abciAPI.NewMockApplicationState(&abciAPI.MockApplicationStateConfig{})
	ctx := appState.NewContext(abciAPI.ContextInitChain)
	st := stakingState.NewMutableState(ctx.State())
	symx.Assert(st.SetConsensusParameters(ctx, &staking.ConsensusParameters{}) == nil, "SetConsensusParameters failed")
	var entIDs []signature.PublicKey
	for i, s := range stakes {
		id := c01Key(byte(100 + i))
		entIDs = append(entIDs, id)
		var acct staking.Account
		acct.Escrow.Active.Balance = *s.Clone()
		acct.Escrow.Active.TotalShares = *s.Clone()
		symx.Assert(st.SetAccount(ctx, staking.NewAddress(id), &acct) == nil, "SetAccount failed")
	}
	ctx = appState.NewContext(abciAPI.ContextBeginBlock)
	var nodes []*node.Node
	for j, o := range owners {
		n := &node.Node{ID: c01Key(byte(1 + j)), EntityID: entIDs[o], Roles: node.RoleValidator}
		n.Consensus.ID = c01Key(byte(51 + j))
		nodes = append(nodes, n)
	}
	stakeAcc, err := stakingState.NewStakeAccumulatorCache(ctx)
	symx.Assert(err == nil, "NewStakeAccumulatorCache failed")
	r := &c01Run{rewardable: make(map[staking.Address]struct{})}
	entropy := []byte("verif entropy 0123456789abcdef0123456789abcdef")
	r.entities, r.err = electValidators(ctx, 1, &beacon.ConsensusParameters{Backend: beacon.BackendInsecure}, stakeAcc, r.rewardable, nodes, params, entropy, nil)
	if r.err == nil {
		r.pending, _ = schedulerState.NewMutableState(ctx.State()).PendingValidators(ctx)
	}
	return r
}

// VerifC01Election: e entities, one validator node each, symbolic stakes (ties included).
func VerifC01Election() {
	e := symx.Cfg("e", 3)
	stakes := make([]*quantity.Quantity, e)
	owners := make([]int, e)
	for i := range stakes {
		q := quantity.NewQuantity()
		_ = q.FromBigInt(symx.Nat(symx.N("stake", i)))
		symx.Assume(q.Cmp(c14MaxSupply) <= 0)
		stakes[i] = q
		owners[i] = i
	}
	params := &scheduler.ConsensusParameters{MinValidators: 1, MaxValidators: 1 + symx.Choose("maxValidators", e), MaxValidatorsPerEntity: 1}

	symx.MapOrderBegin()
	symx.RNGRecord()
	a := c01Elect(stakes, owners, params)
	symx.RNGReplay()
	b := c01Elect(stakes, owners, params)
	symx.RNGOff()
	symx.MapOrderEnd()

	symx.Assert((a.err == nil) == (b.err == nil), "election succeeds or fails depending on map iteration order")
	if a.err != nil {
		return
	}
	symx.Assert(len(a.pending) == len(b.pending), "elected validator count depends on map iteration order")
	for k, va := range a.pending {
		vb, ok := b.pending[k]
		symx.Assert(ok, "elected validator set depends on map iteration order")
		symx.Assert(va.ID == vb.ID && va.EntityID == vb.EntityID && va.VotingPower == vb.VotingPower, "validator record depends on map iteration order")
	}
	symx.Assert(len(a.rewardable) == len(b.rewardable) && len(a.entities) == len(b.entities), "rewardable / validator entity sets depend on map iteration order")
	for k := range a.rewardable {
		_, ok := b.rewardable[k]
		symx.Assert(ok, "rewardable entity set depends on map iteration order")
	}
	for k := range a.entities {
		_, ok := b.entities[k]
		symx.Assert(ok, "validator entity set depends on map iteration order")
	}
	symx.Cover("end")
}
