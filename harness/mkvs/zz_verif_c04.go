package mkvs

// C04: Merkle proofs are complete, and a reader that holds only a trusted root
// and reads through an untrusted peer gets the true answer or an error.

import (
	"bytes"
	"context"

	symx "github.com/oasisprotocol/oasis-core/go/internal/verifsymx"
	"github.com/oasisprotocol/oasis-core/go/common/crypto/hash"
	"github.com/oasisprotocol/oasis-core/go/storage/mkvs/node"
	"github.com/oasisprotocol/oasis-core/go/storage/mkvs/syncer"
)

// vAdvSyncer forwards to an honest tree and applies one symbolic mutation to
// the first proof it relays (later proofs are relayed unchanged).
type vAdvSyncer struct {
	inner   syncer.ReadSyncer
	mutated bool
	honest  bool
	// hashes of all nodes of the honest tree (for the adversary's choice of hash entries)
	realHashes []hash.Hash
	db         *vMemDB
}

func (a *vAdvSyncer) tamper(p *syncer.Proof) {
	if a.honest || a.mutated {
		return
	}
	a.mutated = true
	n := len(p.Entries)
	mut := symx.Cfg("mut", -1)
	if mut < 0 {
		mut = symx.Choose("mut", 11)
	}
	switch mut {
	case 0: // unchanged
		symx.Cover("mut-none")
	case 1: // drop an entry
		if n == 0 {
			return
		}
		k := symx.Choose("mutAt", n)
		p.Entries = append(append([][]byte{}, p.Entries[:k]...), p.Entries[k+1:]...)
		symx.Cover("mut-drop")
	case 2: // replace an entry by nil (claims an empty subtree)
		if n == 0 {
			return
		}
		p.Entries = append([][]byte{}, p.Entries...)
		p.Entries[symx.Choose("mutAt", n)] = nil
		symx.Cover("mut-nil")
	case 3: // replace an entry by a hash entry: the hash of any real node, or any other 32 bytes
		if n == 0 {
			return
		}
		var hb []byte
		if j := symx.Choose("advHashOf", len(a.realHashes)+1); j < len(a.realHashes) {
			hb = append([]byte{}, a.realHashes[j][:]...)
		} else {
			// exhaustive case split: bytes that are not the hash of any node of the honest tree
			hb = symx.Bytes("advHash", 32)
			for _, rh := range a.realHashes {
				symx.Assume(!bytes.Equal(hb, rh[:]))
			}
		}
		e := append([]byte{0x02}, hb...)
		p.Entries = append([][]byte{}, p.Entries...)
		p.Entries[symx.Choose("mutAt", n)] = e
		symx.Cover("mut-hash")
	case 4: // alter one byte of an entry
		if n == 0 {
			return
		}
		k := symx.Choose("mutAt", n)
		if len(p.Entries[k]) == 0 {
			return
		}
		e := append([]byte{}, p.Entries[k]...)
		d := symx.Uint8("mutBy")
		symx.Assume(d != 0)
		// the altered position is symbolic and applied without branching (lazy forking in the decoder)
		pos := symx.Uint8("mutByte")
		symx.Assume(int(pos) < len(e))
		for j := range e {
			t := uint16(uint8(j) ^ pos)
			m := uint8((t - 1) >> 8) // 0xff iff j == pos
			e[j] ^= d & m
		}
		p.Entries = append([][]byte{}, p.Entries...)
		p.Entries[k] = e
		symx.Cover("mut-byte")
	case 5: // swap two entries
		if n < 2 {
			return
		}
		i, j := symx.Choose("mutAt", n), symx.Choose("mutAt2", n)
		p.Entries = append([][]byte{}, p.Entries...)
		p.Entries[i], p.Entries[j] = p.Entries[j], p.Entries[i]
		symx.Cover("mut-swap")
	case 6: // duplicate an entry / append an extra one
		if n == 0 {
			return
		}
		k := symx.Choose("mutAt", n)
		p.Entries = append(append([][]byte{}, p.Entries...), p.Entries[k])
		symx.Cover("mut-dup")
	case 7: // replace an entry by a fabricated full entry (arbitrary short bytes)
		if n == 0 {
			return
		}
		l := 1 + symx.Choose("fabLen", symx.Cfg("fab", 8))
		e := append([]byte{0x01}, symx.Bytes("fab", l)...)
		p.Entries = append([][]byte{}, p.Entries...)
		p.Entries[symx.Choose("mutAt", n)] = e
		symx.Cover("mut-fabricate")
	case 8: // lie about the root / version
		if symx.Bool("mutVersion") {
			p.V = uint16(symx.Choose("advV", 3))
		} else {
			// any root other than the real one (claiming the real one is the unchanged case)
			real := p.UntrustedRoot
			copy(p.UntrustedRoot[:], symx.Bytes("advRoot", 32))
			symx.Assume(p.UntrustedRoot != real)
		}
		symx.Cover("mut-root-version")
	case 10: // the genuine node of the first entry in its full serialisation (child hashes embedded), then a forged leaf below it
		if n < 2 || len(p.Entries[0]) < 2 || p.Entries[0][0] != 0x01 {
			return
		}
		first, err := node.UnmarshalBinary(p.Entries[0][1:])
		if err != nil {
			return
		}
		in, ok := first.(*node.InternalNode)
		if !ok {
			return
		}
		// (the proof's first entry is the compact form of the root node; its full form is what the node database stores)
		_ = in
		var full []byte
		for _, rh := range a.realHashes {
			data := a.db.lookup(rh)
			if nd, err := node.UnmarshalBinary(data); err == nil {
				if ri, ok := nd.(*node.InternalNode); ok && ri.Label.Equal(in.Label) && ri.LabelBitLength == in.LabelBitLength && len(data) > len(p.Entries[0])-1 {
					full = data
				}
			}
		}
		if full == nil {
			return
		}
		leaf := &node.LeafNode{Key: node.Key(symx.Bytes("forgedKey", 1+symx.Choose("forgedKeyLen", 2))), Value: symx.Bytes("forgedVal", 1)}
		raw, err := leaf.MarshalBinary()
		symx.Assert(err == nil, "LeafNode.MarshalBinary failed")
		p.Entries = append([][]byte{}, p.Entries...)
		p.Entries[0] = append([]byte{0x01}, full...)
		p.Entries[1+symx.Choose("mutAt", n-1)] = append([]byte{0x01}, raw...)
		symx.Cover("mut-full-form")
	case 9: // truncate to a single empty-subtree claim
		p.Entries = [][]byte{nil}
		symx.Cover("mut-empty")
	}
}

func (a *vAdvSyncer) SyncGet(ctx context.Context, r *syncer.GetRequest) (*syncer.ProofResponse, error) {
	rsp, err := a.inner.SyncGet(ctx, r)
	if err == nil {
		a.tamper(&rsp.Proof)
	}
	return rsp, err
}

func (a *vAdvSyncer) SyncGetPrefixes(ctx context.Context, r *syncer.GetPrefixesRequest) (*syncer.ProofResponse, error) {
	rsp, err := a.inner.SyncGetPrefixes(ctx, r)
	if err == nil {
		a.tamper(&rsp.Proof)
	}
	return rsp, err
}

func (a *vAdvSyncer) SyncIterate(ctx context.Context, r *syncer.IterateRequest) (*syncer.ProofResponse, error) {
	rsp, err := a.inner.SyncIterate(ctx, r)
	if err == nil {
		a.tamper(&rsp.Proof)
	}
	return rsp, err
}

// vServer builds the honest replica: k symbolic entries committed to a node database.
func vServer(k, total int) (Tree, *vRef, node.Root) {
	t, ref, root, _ := vServerDB(k, total)
	return t, ref, root
}

func vServerDB(k, total int) (Tree, *vRef, node.Root, *vMemDB) {
	d := newVMemDB()
	t := New(nil, d, node.RootTypeState)
	ref := &vRef{}
	for i := 0; i < k; i++ {
		key, val := vOpKey("key", i, total), vVal(symx.N("val", i), 1)
		if symx.Cfg("conckeys", 0) == 1 {
			// fixed tree shape (for the byte-level tampering instances): keys 0x10, 0x90 0x01, 0x91, ...
			key = [][]byte{{0x10}, {0x90, 0x01}, {0x91}, {0x10, 0x80}}[i]
			val = symx.Bytes(symx.N("val", i), 1)
		}
		symx.Assert(t.Insert(vCtx, key, val) == nil, "Insert failed")
		ref.set(key, val)
	}
	_, h, err := t.Commit(vCtx, vNs, 1)
	symx.Assert(err == nil, "Commit failed")
	return t, ref, node.Root{Namespace: vNs, Version: 1, Type: node.RootTypeState, Hash: h}, d
}

func vNewAdv(server Tree, d *vMemDB) *vAdvSyncer {
	a := &vAdvSyncer{inner: server, honest: symx.Cfg("adv", 0) == 0, db: d}
	for _, n := range d.nodes {
		a.realHashes = append(a.realHashes, n.h)
	}
	return a
}

// VerifC04Get: a remote reader (trusted root only) looks up a symbolic key
// through an honest (cfg adv=0) or tampering (adv=1) peer.
func VerifC04Get() {
	k := symx.Cfg("k", 2)
	server, ref, root, d := vServerDB(k, k+1)
	q := vOpKey("key", k, k+1)
	adv := vNewAdv(server, d)
	var client Tree
	if capn := symx.Cfg("capn", 0); capn > 0 {
		// bounded local node cache (any local cache size must give the same answers)
		client = NewWithRoot(adv, nil, root, Capacity(uint64(capn), 0))
	} else {
		client = NewWithRoot(adv, nil, root)
	}
	if symx.Cfg("twice", 0) == 1 {
		// a first lookup of another symbolic key fills (and, with a bounded cache, churns) the local cache
		_, _ = client.Get(vCtx, vOpKey("warm", 0, 1))
	}
	got, err := client.Get(vCtx, q)
	want, present := ref.get(q)
	if err != nil {
		// (C04 allows an error; with an unbounded cache an honest peer must be served - the vacuity guard of this harness)
		symx.Assert(!adv.honest || symx.Cfg("capn", 0) > 0, "honest peer: remote Get failed")
		symx.Cover("get-error")
		return
	}
	if present {
		symx.Assert(got != nil && bytes.Equal(got, want), "remote reader returned a value that is not the one under the trusted root")
		symx.Cover("get-present")
	} else {
		symx.Assert(got == nil, "remote reader returned a value for a key absent under the trusted root")
		symx.Cover("get-absent")
	}
}

// VerifC04Proof: the proof the honest tree builds for a symbolic key verifies
// against its root (both versions) and yields the key's pair iff present.
func VerifC04Proof() {
	k := symx.Cfg("k", 2)
	server, ref, root := vServer(k, k+1)
	q := vOpKey("key", k, k+1)
	rsp, err := server.SyncGet(vCtx, &syncer.GetRequest{
		Tree:            syncer.TreeID{Root: root, Position: root.Hash},
		Key:             q,
		IncludeSiblings: symx.Bool("siblings"),
		ProofVersion:    uint16(symx.Choose("version", 2)),
	})
	symx.Assert(err == nil, "SyncGet failed on the honest tree")
	var pv syncer.ProofVerifier
	_, err = pv.VerifyProof(vCtx, root.Hash, &rsp.Proof)
	symx.Assert(err == nil, "honest proof does not verify against the tree's own root")
	wl, err := pv.VerifyProofToWriteLog(vCtx, root.Hash, &rsp.Proof)
	symx.Assert(err == nil, "honest proof does not verify (write log form)")
	want, present := ref.get(q)
	found := false
	for _, e := range wl {
		if bytes.Equal(e.Key, q) {
			found = true
			symx.Assert(bytes.Equal(e.Value, want), "proof carries a wrong value for the requested key")
		}
		v, ok := ref.get(e.Key)
		symx.Assert(ok && bytes.Equal(v, e.Value), "proof carries a pair that is not in the tree")
	}
	symx.Assert(found == present, "proof does not determine presence of the requested key")
	symx.Cover("end")
}

// VerifC04Iterate: a remote reader iterates from a symbolic position.
func VerifC04Iterate() {
	k := symx.Cfg("k", 2)
	server, ref, root, d := vServerDB(k, k+1)
	q := vOpKey("key", k, k+1)
	adv := vNewAdv(server, d)
	client := NewWithRoot(adv, nil, root)
	it := client.NewIterator(vCtx, IteratorPrefetch(uint16(symx.Cfg("prefetch", 0))))
	defer it.Close()
	i, _ := ref.find(q)
	for it.Seek(q); it.Valid(); it.Next() {
		symx.Assert(i < len(ref.ents), "remote iteration yields more keys than are under the trusted root")
		symx.Assert(bytes.Equal(it.Key(), ref.ents[i].k) && bytes.Equal(it.Value(), ref.ents[i].v), "remote iteration yields a pair that is not the next one under the trusted root")
		i++
	}
	if it.Err() != nil {
		symx.Assert(!adv.honest, "honest peer: remote iteration failed")
		symx.Cover("iter-error")
		return
	}
	symx.Assert(i == len(ref.ents), "remote iteration ended early without an error")
	symx.Cover("iter-end")
}

// VerifC04Verify: the verifier API itself. A tampered proof that VerifyProof
// accepts against the trusted root must reconstruct a subtree with exactly that
// root hash (nil only for the empty tree) and carry only pairs of the tree.
func VerifC04Verify() {
	k := symx.Cfg("k", 2)
	server, ref, root, d := vServerDB(k, k+1)
	q := vOpKey("key", k, k+1)
	rsp, err := server.SyncGet(vCtx, &syncer.GetRequest{
		Tree:         syncer.TreeID{Root: root, Position: root.Hash},
		Key:          q,
		ProofVersion: uint16(symx.Choose("version", 2)),
	})
	symx.Assert(err == nil, "SyncGet failed on the honest tree")
	adv := vNewAdv(server, d)
	adv.honest = false
	adv.tamper(&rsp.Proof)
	var pv syncer.ProofVerifier
	ptr, err := pv.VerifyProof(vCtx, root.Hash, &rsp.Proof)
	if err != nil {
		symx.Cover("rejected")
		return
	}
	symx.Cover("accepted")
	if ptr == nil {
		symx.Assert(root.Hash.IsEmpty(), "proof accepted as an empty tree although the trusted root is not empty")
	} else {
		symx.Assert(ptr.Hash == root.Hash, "accepted proof reconstructs a different root")
	}
	wl, err := pv.VerifyProofToWriteLog(vCtx, root.Hash, &rsp.Proof)
	symx.Assert(err == nil, "VerifyProofToWriteLog disagrees with VerifyProof")
	for _, e := range wl {
		v, ok := ref.get(e.Key)
		symx.Assert(ok && bytes.Equal(v, e.Value), "accepted proof carries a pair that is not under the trusted root")
	}
}

// vOneShot relays exactly one request to the honest tree, asking for the proof format chosen by the
// harness, and fails every further request.
type vOneShot struct {
	inner   syncer.ReadSyncer
	version uint16
	used    int
}

var errVSecondRequest = context.DeadlineExceeded

func (o *vOneShot) SyncGet(ctx context.Context, r *syncer.GetRequest) (*syncer.ProofResponse, error) {
	o.used++
	if o.used > 1 {
		return nil, errVSecondRequest
	}
	rr := *r
	rr.ProofVersion = o.version
	return o.inner.SyncGet(ctx, &rr)
}

func (o *vOneShot) SyncGetPrefixes(ctx context.Context, r *syncer.GetPrefixesRequest) (*syncer.ProofResponse, error) {
	o.used++
	return nil, errVSecondRequest
}

func (o *vOneShot) SyncIterate(ctx context.Context, r *syncer.IterateRequest) (*syncer.ProofResponse, error) {
	o.used++
	return nil, errVSecondRequest
}

// VerifC04OneProof (completeness): the single proof an honest tree builds for a lookup - in either
// proof format - is enough for a reader holding only the root to answer that lookup, for present
// and for absent keys (an absence proof must contain what shows the absence).
func VerifC04OneProof() {
	k := symx.Cfg("k", 2)
	server, ref, root := vServer(k, k+1)
	q := vOpKey("key", k, k+1)
	one := &vOneShot{inner: server, version: uint16(symx.Choose("version", 2))}
	client := NewWithRoot(one, nil, root)
	got, err := client.Get(vCtx, q)
	symx.Assert(err == nil, "the proof built for a lookup does not suffice to answer that lookup")
	want, present := ref.get(q)
	if present {
		symx.Assert(got != nil && bytes.Equal(got, want), "reader answered with a different value")
		symx.Cover("present")
	} else {
		symx.Assert(got == nil, "reader answered with a value for an absent key")
		symx.Cover("absent")
	}
	symx.Assert(one.used <= 1, "more than one proof was requested")
	symx.Cover("end")
}
