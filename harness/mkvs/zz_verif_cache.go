package mkvs

// C02 / C03 with a bounded node cache: the same ordered-map and root-hash
// checks as VerifC03Tree / VerifC02History, on a tree backed by a node database
// (harness in-memory NodeDB) with node-cache capacity cfg capn and value-cache
// capacity cfg capv, persisted commits and optional reopen at the committed root.

import (
	symx "github.com/oasisprotocol/oasis-core/go/internal/verifsymx"
	"github.com/oasisprotocol/oasis-core/go/storage/mkvs/node"
)

// vCacheKey: the symbolic key of step i; cfg keymask (default 255) keeps only the masked bits of every key
// byte variable (a smaller key alphabet: fewer tree shapes, same mechanisms).
func vCacheKey(i, n int) []byte {
	k := vOpKey("key", i, n+1)
	if m := symx.Cfg("keymask", 255); m != 255 {
		for j := range k {
			k[j] &= byte(m)
		}
	}
	return k
}

// VerifC03Cache: n operations, each optionally followed by a persisted commit (and reopen).
func VerifC03Cache() {
	n := symx.Cfg("n", 3)
	capn, capv := uint64(symx.Cfg("capn", 1)), uint64(symx.Cfg("capv", 0))
	d := newVMemDB()
	t := New(nil, d, node.RootTypeState, Capacity(capn, capv))
	ref := &vRef{}
	version := uint64(1)
	for i := 0; i < n; i++ {
		// cfg kinds: decimal digits fixing the operation kinds (0 insert, 1 remove, 2 remove-existing, other: symbolic);
		// cfg commitat: digits 1 = commit after this step, 0 = no commit, other / absent: symbolic
		vApplyOpKind(t, ref, vCacheKey(i, n), i, vDigit("kinds", i, n))
		doCommit := false
		switch vDigit("commitat", i, n) {
		case 0:
		case 1:
			doCommit = true
		default:
			doCommit = symx.Cfg("commits", 1) == 1 && symx.Bool(symx.N("commit", i))
		}
		if doCommit {
			_, h, err := t.Commit(vCtx, vNs, version)
			symx.Assert(err == nil, "Commit failed")
			symx.Assert(h == vCanonicalRoot(ref), "committed root differs from the root of a fresh tree with the same contents")
			if r := symx.Cfg("reopen", 0); r == 2 || (r == 1 && symx.Bool(symx.N("reopen", i))) { // reopen=2: always
				t.Close()
				t = NewWithRoot(nil, d, node.Root{Namespace: vNs, Version: version, Type: node.RootTypeState, Hash: h}, Capacity(capn, capv))
				symx.Cover("reopened")
			}
			version++
			symx.Cover("committed")
		}
	}
	probe := vCacheKey(n, n)
	vCheckMap(t, ref, probe, probe, true)
	symx.Assert(vRootOf(t) == vCanonicalRoot(ref), "root differs from the root of a fresh tree with the same contents")
	symx.Cover("end")
}
