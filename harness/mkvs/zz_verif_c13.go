package mkvs

// C13 (tree level): the write log produced for a transition R1 -> R2, as
// returned by Commit and as served back by the node database, applied to a
// tree at R1 gives exactly R2; a tampered log is never persisted under the
// expected root.

import (
	"bytes"

	symx "github.com/oasisprotocol/oasis-core/go/internal/verifsymx"
	"github.com/oasisprotocol/oasis-core/go/storage/mkvs/node"
	"github.com/oasisprotocol/oasis-core/go/storage/mkvs/writelog"
)

// vBatch applies n symbolic operations to t and ref.
func vBatch(t Tree, ref *vRef, prefix string, first, n, total int) {
	for i := first; i < first+n; i++ {
		key := vOpKey("key", i, total)
		remove := false
		switch vDigit("kinds", i, total) {
		case 0:
		case 1:
			remove = true
		default:
			remove = symx.Bool(symx.N("remove", i))
		}
		if remove {
			symx.Assert(t.Remove(vCtx, key) == nil, "Remove failed")
			ref.del(key)
		} else {
			val := vVal(symx.N("val", i), 1) // empty values included
			symx.Assert(t.Insert(vCtx, key, val) == nil, "Insert failed")
			ref.set(key, val)
		}
	}
}

func vRoot(version uint64, h node.Root) node.Root { return h }

// VerifC13Sync: base contents committed as version 1, a batch committed as
// version 2; replaying the returned / the served write log on version 1 yields version 2.
func VerifC13Sync() {
	nb := symx.Cfg("base", 1)
	n := symx.Cfg("n", 2)
	total := nb + n
	d := newVMemDB()
	t := New(nil, d, node.RootTypeState)
	ref := &vRef{}
	vBatch(t, ref, "base", 0, nb, total)
	_, h1, err := t.Commit(vCtx, vNs, 1)
	symx.Assert(err == nil, "Commit failed")
	r1 := node.Root{Namespace: vNs, Version: 1, Type: node.RootTypeState, Hash: h1}
	before := ref.clone()
	vBatch(t, ref, "op", nb, n, total)
	log, h2, err := t.Commit(vCtx, vNs, 2)
	symx.Assert(err == nil, "Commit failed")
	r2 := node.Root{Namespace: vNs, Version: 2, Type: node.RootTypeState, Hash: h2}
	symx.Assert(d.HasRoot(r1) && d.HasRoot(r2), "committed root missing from the node database")

	// the log mentions each key at most once and no key that is absent before and after
	for i := range log {
		for j := i + 1; j < len(log); j++ {
			symx.Assert(!bytes.Equal(log[i].Key, log[j].Key), "write log mentions a key twice")
		}
		_, was := before.get(log[i].Key)
		_, is := ref.get(log[i].Key)
		symx.Assert(was || is, "write log mentions a key that is absent before and after")
	}

	useServed := symx.Cfg("served", 0) == 1
	apply := func(l writelog.WriteLog) node.Root {
		t2 := NewWithRoot(nil, d, r1)
		symx.Assert(t2.ApplyWriteLog(vCtx, writelog.NewStaticIterator(l)) == nil, "ApplyWriteLog failed")
		_, h, err := t2.Commit(vCtx, vNs, 2, NoPersist())
		symx.Assert(err == nil, "Commit of the replica failed")
		return node.Root{Namespace: vNs, Version: 2, Type: node.RootTypeState, Hash: h}
	}
	if useServed {
		it, err := d.GetWriteLog(vCtx, r1, r2)
		symx.Assert(err == nil, "node database does not serve the write log of a committed transition")
		var served writelog.WriteLog
		for {
			more, err := it.Next()
			symx.Assert(err == nil, "served write log iterator failed")
			if !more {
				break
			}
			e, _ := it.Value()
			served = append(served, e)
		}
		got := apply(served)
		symx.Assert(got.Hash == r2.Hash, "served write log applied to the first root does not give the second root")
		symx.Cover("served-applied")
	} else {
		got := apply(log)
		symx.Assert(got.Hash == r2.Hash, "write log applied to the first root does not give the second root")
		symx.Cover("applied")
	}

	// a tampered log is never persisted under the expected root
	if symx.Cfg("tamper", 0) == 1 && len(log) > 0 {
		bad := append(writelog.WriteLog{}, log...)
		k := symx.Choose("tamperAt", len(bad))
		switch symx.Choose("tamperKind", 3) {
		case 0: // drop an entry
			bad = append(bad[:k:k], bad[k+1:]...)
		case 1: // change a value byte / turn into removal
			if bad[k].Value == nil {
				bad[k].Value = []byte{symx.Uint8("tamperByte")}
			} else {
				bad[k].Value = nil
			}
		case 2: // another key
			other := vOpKey("key", 0, total)
			symx.Assume(!bytes.Equal(other, bad[k].Key))
			bad[k].Key = other
		}
		d2 := newVMemDB()
		*d2 = *d
		rootsBefore := len(d2.roots)
		d2.roots = append([]node.Root{}, d.roots[:1]...) // a node that only has version 1
		t3 := NewWithRoot(nil, d2, r1)
		symx.Assert(t3.ApplyWriteLog(vCtx, writelog.NewStaticIterator(bad)) == nil, "ApplyWriteLog failed")
		_, err := t3.CommitKnown(vCtx, r2)
		_ = rootsBefore
		// reference: what the tampered log does to the version-1 contents
		refBad := before.clone()
		for _, e := range bad {
			if e.Value == nil {
				refBad.del(e.Key)
			} else {
				refBad.set(e.Key, e.Value)
			}
		}
		same := len(refBad.ents) == len(ref.ents)
		for i := 0; same && i < len(ref.ents); i++ {
			same = bytes.Equal(refBad.ents[i].k, ref.ents[i].k) && bytes.Equal(refBad.ents[i].v, ref.ents[i].v)
		}
		if err == nil {
			symx.Assert(same, "tampered write log with different resulting contents committed under the expected root")
			symx.Cover("tamper-harmless")
		} else {
			symx.Assert(!same, "write log producing the expected contents rejected")
			symx.Assert(!d2.HasRoot(r2), "failed apply left the expected root in the database")
			symx.Cover("tamper-rejected")
		}
	}
	symx.Cover("end")
}
