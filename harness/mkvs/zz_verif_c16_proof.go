package mkvs

// C16 (proof verifier resource bound): an untrusted proof whose entries nest
// deeper than the verifier's maximum proof depth is rejected - whatever side the
// nesting goes down - so that recursion depth is bounded by a constant and not by
// the attacker-chosen number of entries; proofs within the limit that hash to the
// trusted root are accepted.
//
// Symbolic: chain length (around the limit), nesting pattern (left, right,
// alternating, symbolic per level near the top), proof version, label bits.

import (
	"github.com/oasisprotocol/oasis-core/go/common/crypto/hash"
	symx "github.com/oasisprotocol/oasis-core/go/internal/verifsymx"
	"github.com/oasisprotocol/oasis-core/go/storage/mkvs/node"
	"github.com/oasisprotocol/oasis-core/go/storage/mkvs/syncer"
)

// the verifier's documented limit (syncer.maxProofDepth is unexported)
const vMaxProofDepth = 128

func VerifC16ProofDepth() {
	base := symx.Cfg("base", 124)
	length := base + symx.Choose("len", symx.Cfg("span", 10)) // number of nested internal nodes
	pattern := symx.Choose("pattern", 4)
	version := uint16(symx.Choose("version", 2))
	goRight := func(level int) bool {
		switch pattern {
		case 0:
			return false
		case 1:
			return true
		case 2:
			return level%2 == 1
		default:
			// a symbolic choice for the first levels, then right
			if level < 3 {
				return symx.Bool(symx.N("right", level))
			}
			return true
		}
	}
	// bottom-up: the real nodes (for the trusted root hash); top-down: the proof entries
	var child *node.Pointer
	for level := length - 1; level >= 0; level-- {
		n := &node.InternalNode{}
		if goRight(level) {
			n.Right = child
		} else {
			n.Left = child
		}
		n.UpdateHash()
		child = &node.Pointer{Clean: true, Hash: n.Hash, Node: n}
	}
	root := child.Hash
	var entries [][]byte
	var emit func(level int)
	emit = func(level int) {
		if level == length {
			entries = append(entries, nil)
			return
		}
		n := &node.InternalNode{}
		var raw []byte
		var err error
		if version == 0 {
			raw, err = n.CompactMarshalBinaryV0()
		} else {
			raw, err = n.CompactMarshalBinaryV1()
		}
		symx.Assert(err == nil, "CompactMarshalBinary failed")
		entries = append(entries, append([]byte{0x01}, raw...))
		if version == 1 {
			entries = append(entries, nil) // no leaf
		}
		if goRight(level) {
			entries = append(entries, nil)
			emit(level + 1)
		} else {
			emit(level + 1)
			entries = append(entries, nil)
		}
	}
	emit(0)
	proof := &syncer.Proof{V: version, UntrustedRoot: root, Entries: entries}
	var pv syncer.ProofVerifier
	_, err := pv.VerifyProof(vCtx, root, proof)
	if err == nil {
		symx.Cover("accepted")
		// the deepest entries of a chain of n nodes sit at depth n; nothing deeper than the limit may be visited
		symx.Assert(length <= vMaxProofDepth, "proof nested deeper than the maximum proof depth was accepted (recursion bounded only by the input)")
	} else {
		symx.Cover("rejected")
		symx.Assert(length >= vMaxProofDepth, "honest proof well within the maximum proof depth rejected")
	}
	var _ hash.Hash
	symx.Cover("end")
}
