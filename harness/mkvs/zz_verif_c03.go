package mkvs

// C03: tree and overlays behave as an ordered map.

import (
	"bytes"

	symx "github.com/oasisprotocol/oasis-core/go/internal/verifsymx"
	"github.com/oasisprotocol/oasis-core/go/storage/mkvs/node"
)

// vCheckMap compares a KeyValueTree with the reference map: point lookups of
// every script key and of a fresh symbolic key, and a full iteration from a
// symbolic seek position.
func vCheckMap(t KeyValueTree, ref *vRef, probe []byte, seek []byte, doSeek bool) {
	got, err := t.Get(vCtx, probe)
	symx.Assert(err == nil, "Get failed")
	want, present := ref.get(probe)
	if present {
		symx.Assert(got != nil && bytes.Equal(got, want), "Get returned a value different from the last one written")
	} else {
		symx.Assert(got == nil, "Get returned a value for an absent key")
	}
	it := t.NewIterator(vCtx)
	defer it.Close()
	i := 0
	if doSeek {
		it.Seek(seek)
		i, _ = ref.find(seek)
	} else {
		it.Rewind()
	}
	for ; it.Valid(); it.Next() {
		symx.Assert(i < len(ref.ents), "iterator yields more keys than are live")
		symx.Assert(bytes.Equal(it.Key(), ref.ents[i].k), "iterator key out of order or not live")
		symx.Assert(bytes.Equal(it.Value(), ref.ents[i].v), "iterator value differs from the last one written")
		i++
	}
	symx.Assert(it.Err() == nil, "iterator error")
	symx.Assert(i == len(ref.ents), "iterator skipped live keys")
}

// vApplyOp applies one symbolic map operation to tree and reference.
func vApplyOp(t KeyValueTree, ref *vRef, key []byte, i int) {
	vApplyOpKind(t, ref, key, i, -1)
}

// vApplyOpKind: kind 0 insert, 1 remove, 2 remove-existing, 3 get (only when fixed by the instance),
// 4 insert of a value of symbolic length 0..1; any other value: symbolic choice among 0..2.
func vApplyOpKind(t KeyValueTree, ref *vRef, key []byte, i int, kind int) {
	if kind < 0 || kind > 4 {
		kind = symx.Choose(symx.N("op", i), 3)
	}
	switch kind {
	case 3:
		got, err := t.Get(vCtx, key)
		symx.Assert(err == nil, "Get failed")
		want, present := ref.get(key)
		if present {
			symx.Assert(got != nil && bytes.Equal(got, want), "Get returned a value different from the last one written")
		} else {
			symx.Assert(got == nil, "Get returned a value for an absent key")
		}
	case 0, 4:
		val := vVal1(symx.N("val", i))
		if kind == 4 || symx.Cfg("emptyvals", 0) == 1 {
			val = vVal(symx.N("val", i), 1)
		}
		if symx.Cfg("nilvals", 0) == 1 && len(val) == 0 && symx.Bool(symx.N("nilval", i)) {
			// the empty value passed as a nil slice: still the empty value, not absence
			symx.Assert(t.Insert(vCtx, key, nil) == nil, "Insert failed")
			ref.set(key, []byte{})
			break
		}
		symx.Assert(t.Insert(vCtx, key, val) == nil, "Insert failed")
		ref.set(key, val)
	case 1:
		symx.Assert(t.Remove(vCtx, key) == nil, "Remove failed")
		ref.del(key)
	case 2:
		prev, err := t.RemoveExisting(vCtx, key)
		symx.Assert(err == nil, "RemoveExisting failed")
		want, present := ref.del(key)
		if present {
			symx.Assert(prev != nil && bytes.Equal(prev, want), "RemoveExisting did not return the previous value")
		} else {
			symx.Assert(prev == nil, "RemoveExisting returned a value for an absent key")
		}
	}
}

// VerifC03Tree: n operations on an in-memory tree (with optional NoPersist
// commits in between), then full comparison with the reference.
func VerifC03Tree() {
	n := symx.Cfg("n", 3)
	t := New(nil, nil, node.RootTypeState)
	ref := &vRef{}
	for i := 0; i < n; i++ {
		vApplyOp(t, ref, vOpKey("key", i, n+1), i)
		if symx.Cfg("commits", 0) == 1 && symx.Bool(symx.N("commit", i)) {
			vRootOf(t)
		}
	}
	probe := vOpKey("key", n, n+1) // probe and seek position
	vCheckMap(t, ref, probe, probe, true)
	symx.Cover("end")
}

// VerifC03Overlay: a tree with symbolic base contents, an overlay (optionally a
// second one stacked on it) receiving operations, then commit or discard of
// each overlay; every layer is compared with its own reference.
func VerifC03Overlay() {
	nb := symx.Cfg("base", 1)
	n := symx.Cfg("n", 2)
	depth := symx.Cfg("depth", 1)
	total := nb + depth*n + 1
	t := New(nil, nil, node.RootTypeState)
	ref := &vRef{}
	for i := 0; i < nb; i++ {
		key, val := vOpKey("key", i, total), vVal(symx.N("baseval", i), 1) // empty values included
		symx.Assert(t.Insert(vCtx, key, val) == nil, "Insert failed")
		ref.set(key, val)
	}
	layers := []KeyValueTree{t}
	refs := []*vRef{ref}
	for d := 0; d < depth; d++ {
		ov := NewOverlay(layers[len(layers)-1])
		oref := refs[len(refs)-1].clone()
		for i := 0; i < n; i++ {
			j := nb + d*n + i
			vApplyOp(ov, oref, vOpKey("key", j, total), j)
		}
		layers = append(layers, ov)
		refs = append(refs, oref)
	}
	probe := vOpKey("key", total-1, total)
	// the top layer sees everything below it plus its own writes
	vCheckMap(layers[len(layers)-1], refs[len(refs)-1], probe, probe, true)
	symx.Cover("checked-top")
	// commit or discard from the top down
	for d := len(layers) - 1; d >= 1; d-- {
		ov := layers[d].(OverlayTree)
		if symx.Bool(symx.N("commitLayer", d)) {
			_, err := ov.Commit(vCtx)
			symx.Assert(err == nil, "overlay Commit failed")
			refs[d-1] = refs[d]
			symx.Cover("overlay-committed")
		} else {
			ov.Close()
			symx.Cover("overlay-discarded")
		}
		vCheckMap(layers[d-1], refs[d-1], probe, probe, true)
	}
	symx.Cover("end")
}
