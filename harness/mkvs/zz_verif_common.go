package mkvs

// Shared helpers of the mkvs harnesses (C02, C03, C04, C13): symbolic keys and
// the reference ordered map (the specification the tree is compared against).

import (
	"bytes"
	"context"

	"github.com/oasisprotocol/oasis-core/go/common"
	"github.com/oasisprotocol/oasis-core/go/common/crypto/hash"
	symx "github.com/oasisprotocol/oasis-core/go/internal/verifsymx"
	"github.com/oasisprotocol/oasis-core/go/storage/mkvs/node"
)

var vCtx = context.Background()

// vKey returns a symbolic key of symbolic length 0..maxLen.
func vKey(name string, maxLen int) []byte {
	n := symx.Choose(name+".len", maxLen+1)
	return symx.Bytes(name, n)
}

// vOpKey returns the symbolic key operand of step i. Its length is the i-th
// decimal digit (from the left, n digits) of cfg "lens" when given, else klen.
// Keys of different steps are independent symbolic byte strings, so equal,
// prefix-related and unrelated operands are all covered.
func vOpKey(name string, i, n int) []byte {
	l := symx.Cfg("klen", 1)
	if lens := symx.Cfg("lens", -1); lens >= 0 {
		d := lens
		for j := n - 1; j > i; j-- {
			d /= 10
		}
		l = d % 10
	}
	return symx.Bytes(symx.N(name, i), l)
}

// vDigit returns the i-th decimal digit (from the left, n digits) of cfg name, or -1 if the cfg is absent.
func vDigit(name string, i, n int) int {
	v := symx.Cfg(name, -1)
	if v < 0 {
		return -1
	}
	for j := n - 1; j > i; j-- {
		v /= 10
	}
	return v % 10
}

// vVal1 returns a symbolic one-byte value.
func vVal1(name string) []byte { return symx.Bytes(name, 1) }

// vVal returns a symbolic non-nil value of symbolic length 0..maxLen.
func vVal(name string, maxLen int) []byte {
	n := symx.Choose(name+".len", maxLen+1)
	b := symx.Bytes(name, n)
	if b == nil {
		b = []byte{}
	}
	return b
}

type vKV struct{ k, v []byte }

// vRef is the reference ordered map: a list sorted by ascending key.
type vRef struct{ ents []vKV }

func (r *vRef) find(k []byte) (int, bool) {
	for i, e := range r.ents {
		c := bytes.Compare(e.k, k)
		if c == 0 {
			return i, true
		}
		if c > 0 {
			return i, false
		}
	}
	return len(r.ents), false
}

func (r *vRef) get(k []byte) ([]byte, bool) {
	if i, ok := r.find(k); ok {
		return r.ents[i].v, true
	}
	return nil, false
}

func (r *vRef) set(k, v []byte) {
	i, ok := r.find(k)
	if ok {
		r.ents[i].v = v
		return
	}
	r.ents = append(r.ents, vKV{})
	copy(r.ents[i+1:], r.ents[i:])
	r.ents[i] = vKV{k, v}
}

func (r *vRef) del(k []byte) ([]byte, bool) {
	i, ok := r.find(k)
	if !ok {
		return nil, false
	}
	v := r.ents[i].v
	r.ents = append(r.ents[:i:i], r.ents[i+1:]...)
	return v, true
}

func (r *vRef) clone() *vRef {
	c := &vRef{ents: make([]vKV, len(r.ents))}
	copy(c.ents, r.ents)
	return c
}

var vNs common.Namespace

// vRootOf returns the root hash of tree t without persisting anything.
func vRootOf(t Tree) hash.Hash {
	_, h, err := t.Commit(vCtx, vNs, 0, NoPersist())
	symx.Assert(err == nil, "Commit(NoPersist) failed")
	return h
}

// vCanonicalRoot builds a fresh tree from the reference contents (ascending
// insertion order) and returns its root.
func vCanonicalRoot(r *vRef) hash.Hash {
	t := New(nil, nil, node.RootTypeState)
	for _, e := range r.ents {
		err := t.Insert(vCtx, e.k, e.v)
		symx.Assert(err == nil, "Insert into fresh tree failed")
	}
	return vRootOf(t)
}
