package mkvs

// C02: the root hash is a function of the contents only.

import (
	symx "github.com/oasisprotocol/oasis-core/go/internal/verifsymx"
	"github.com/oasisprotocol/oasis-core/go/storage/mkvs/node"
)

// VerifC02History: a script of n inserts/removes on symbolic keys (optionally
// with a commit before each step); the root must equal the root of a fresh tree
// holding the same final contents inserted in ascending order.
func VerifC02History() {
	n := symx.Cfg("n", 3)
	t := New(nil, nil, node.RootTypeState, Capacity(0, 0))
	ref := &vRef{}
	for i := 0; i < n; i++ {
		key := vOpKey("key", i, n)
		if symx.Cfg("commits", 0) == 1 && symx.Bool(symx.N("commit", i)) {
			vRootOf(t) // batching into commits must not matter
		}
		remove := false
		switch vDigit("kinds", i, n) { // 0 insert, 1 remove, otherwise symbolic
		case 0:
		case 1:
			remove = true
		default:
			remove = symx.Bool(symx.N("remove", i))
		}
		if remove {
			symx.Assert(t.Remove(vCtx, key) == nil, "Remove failed")
			ref.del(key)
		} else {
			val := vVal1(symx.N("val", i))
			if symx.Cfg("emptyvals", 0) == 1 {
				val = vVal(symx.N("val", i), 1) // values of length 0..1
			}
			symx.Assert(t.Insert(vCtx, key, val) == nil, "Insert failed")
			ref.set(key, val)
		}
	}
	got := vRootOf(t)
	want := vCanonicalRoot(ref)
	symx.Assert(got == want, "root hash depends on the operation history, not only on the contents")
	symx.Cover("end")
}

// VerifC02Sensitivity: two content sets that differ in one key or one value
// have different roots.
func VerifC02Sensitivity() {
	k := symx.Cfg("k", 2)
	ref := &vRef{}
	for i := 0; i < k; i++ {
		ref.set(vOpKey("key", i, k+1), vVal1(symx.N("val", i)))
	}
	other := ref.clone()
	extra := vOpKey("key", k, k+1)
	switch symx.Choose("change", 3) {
	case 0: // add a key that is not present
		_, present := other.get(extra)
		symx.Assume(!present)
		other.set(extra, vVal1("extraval"))
		symx.Cover("added")
	case 1: // remove a present key
		_, present := other.del(extra)
		symx.Assume(present)
		symx.Cover("removed")
	case 2: // change the value of a present key (to a different byte, or to the empty value)
		old, present := other.get(extra)
		symx.Assume(present)
		nv := vVal("extraval", 1)
		symx.Assume(string(nv) != string(old))
		other.set(extra, nv)
		symx.Cover("changed")
	}
	a, b := vCanonicalRoot(ref), vCanonicalRoot(other)
	symx.Assert(a != b, "different contents, same root hash")
}
