package roothash

// C08 for the roothash application's SubmitMsg handler (the one roothash
// transaction that moves funds): run on the real consensus state tree from a
// symbolic pre-state (caller balance, fee, tokens, minimum fee, queue limit and
// current queue size all symbolic); a failing call must leave the complete
// state untouched, a successful one must move exactly fee+tokens and queue
// exactly one message.

import (
	"bytes"

	"github.com/oasisprotocol/oasis-core/go/common"
	"github.com/oasisprotocol/oasis-core/go/common/crypto/signature"
	"github.com/oasisprotocol/oasis-core/go/common/quantity"
	abciAPI "github.com/oasisprotocol/oasis-core/go/consensus/cometbft/api"
	roothashState "github.com/oasisprotocol/oasis-core/go/consensus/cometbft/apps/roothash/state"
	stakingState "github.com/oasisprotocol/oasis-core/go/consensus/cometbft/apps/staking/state"
	symx "github.com/oasisprotocol/oasis-core/go/internal/verifsymx"
	registry "github.com/oasisprotocol/oasis-core/go/registry/api"
	roothash "github.com/oasisprotocol/oasis-core/go/roothash/api"
	"github.com/oasisprotocol/oasis-core/go/roothash/api/block"
	"github.com/oasisprotocol/oasis-core/go/roothash/api/commitment"
	"github.com/oasisprotocol/oasis-core/go/roothash/api/message"
	scheduler "github.com/oasisprotocol/oasis-core/go/scheduler/api"
	staking "github.com/oasisprotocol/oasis-core/go/staking/api"
)

func hQ(name string) *quantity.Quantity {
	q := quantity.NewQuantity()
	if err := q.FromBigInt(symx.Nat(name)); err != nil {
		symx.Unreachable("non-negative integer rejected by FromBigInt")
	}
	return q
}

type hKV struct{ k, v []byte }

func hSnapshot(ctx *abciAPI.Context) []hKV {
	var out []hKV
	it := ctx.State().NewIterator(ctx)
	defer it.Close()
	for it.Rewind(); it.Valid(); it.Next() {
		out = append(out, hKV{append([]byte{}, it.Key()...), it.Value()})
	}
	return out
}

func hSame(a, b []hKV) bool {
	if len(a) != len(b) {
		return false
	}
	for i := range a {
		if !bytes.Equal(a[i].k, b[i].k) || !bytes.Equal(a[i].v, b[i].v) {
			return false
		}
	}
	return true
}

func hMust(err error, what string) { symx.Assert(err == nil, what+" failed") }

// VerifRootSubmitMsg.
func VerifRootSubmitMsg() {
	appState := abciAPI.NewMockApplicationState(&abciAPI.MockApplicationStateConfig{})
	ctx := appState.NewContext(abciAPI.ContextEndBlock)
	app := &Application{appState, nil, nil}

	var callerPK, nodePK signature.PublicKey
	callerPK[0], callerPK[31] = 1, 0x77
	nodePK[0], nodePK[31] = 2, 0x77
	caller := staking.NewAddress(callerPK)

	var rtID common.Namespace
	rtID[0] = 0x80
	runtime := registry.Runtime{ID: rtID}
	runtime.Executor.MaxMessages = 32
	runtime.TxnScheduler.MaxInMessages = symx.Uint32("maxInMessages")
	runtime.Staking.MinInMessageFee = *hQ("minInMessageFee")

	st := stakingState.NewMutableState(ctx.State())
	hMust(st.SetConsensusParameters(ctx, &staking.ConsensusParameters{}), "staking.SetConsensusParameters")
	callerAcct := &staking.Account{}
	callerAcct.General.Balance = *hQ("callerBalance")
	hMust(st.SetAccount(ctx, caller, callerAcct), "SetAccount")
	rtAddr := staking.NewRuntimeAddress(rtID)
	rtAcct := &staking.Account{}
	rtAcct.General.Balance = *hQ("runtimeBalance")
	hMust(st.SetAccount(ctx, rtAddr, rtAcct), "SetAccount")

	committee := scheduler.Committee{
		RuntimeID: rtID,
		Kind:      scheduler.KindComputeExecutor,
		Members:   []*scheduler.CommitteeNode{{Role: scheduler.RoleWorker, PublicKey: nodePK}},
	}
	rs := roothashState.NewMutableState(ctx.State())
	hMust(rs.SetConsensusParameters(ctx, &roothash.ConsensusParameters{MaxRuntimeMessages: 32}), "roothash.SetConsensusParameters")
	blk := block.NewGenesisBlock(rtID, 0)
	suspended := symx.Bool("suspended")
	hMust(rs.SetRuntimeState(ctx, &roothash.RuntimeState{
		Runtime: &runtime, Suspended: suspended, GenesisBlock: blk, LastBlock: blk, LastBlockHeight: 1, LastNormalHeight: 1,
		CommitmentPool: commitment.NewPool(), Committee: &committee,
	}), "SetRuntimeState")
	size, next := symx.Uint32("queueSize"), symx.Uint64("queueNext")
	hMust(rs.SetIncomingMessageQueueMeta(ctx, rtID, &message.IncomingMessageQueueMeta{Size: size, NextSequenceNumber: next}), "SetIncomingMessageQueueMeta")

	msg := &roothash.SubmitMsg{ID: rtID, Tag: symx.Uint64("tag"), Fee: *hQ("fee"), Tokens: *hQ("tokens"), Data: []byte("hello")}
	if symx.Bool("otherRuntime") {
		msg.ID[1] = 0xDE
	}

	before := hSnapshot(ctx)
	txCtx := appState.NewContext(abciAPI.ContextDeliverTx)
	txCtx.SetTxSigner(callerPK)
	err := app.submitMsg(txCtx, roothashState.NewMutableState(txCtx.State()), msg)
	txCtx.Close()

	if err != nil {
		symx.Assert(hSame(before, hSnapshot(ctx)), "a failed SubmitMsg changed the consensus state")
		symx.Cover("submit-failed")
		return
	}
	symx.Cover("submit-ok")
	total := msg.Fee.Clone()
	_ = total.Add(&msg.Tokens)
	a, aerr := st.Account(ctx, caller)
	hMust(aerr, "Account")
	want := callerAcct.General.Balance.Clone()
	symx.Assert(want.Sub(total) == nil && a.General.Balance.Cmp(want) == 0, "caller not debited by exactly fee+tokens")
	r, rerr := st.Account(ctx, rtAddr)
	hMust(rerr, "Account")
	wantR := rtAcct.General.Balance.Clone()
	_ = wantR.Add(total)
	symx.Assert(r.General.Balance.Cmp(wantR) == 0, "runtime account not credited by exactly fee+tokens")
	meta, merr := rs.IncomingMessageQueueMeta(ctx, rtID)
	hMust(merr, "IncomingMessageQueueMeta")
	symx.Assert(size < runtime.TxnScheduler.MaxInMessages, "message queued although the queue was full")
	symx.Assert(meta.Size == size+1 && meta.NextSequenceNumber == next+1, "queue metadata not advanced by one")
	symx.Assert(msg.Fee.Cmp(&runtime.Staking.MinInMessageFee) >= 0, "message accepted with a fee below the runtime's minimum")
}
