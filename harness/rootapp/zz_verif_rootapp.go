package roothash

// C08 for the roothash application's SubmitMsg handler (the one roothash
// transaction that moves funds): run on the real consensus state tree from a
// symbolic pre-state (caller balance, fee, tokens, minimum fee, queue limit and
// current queue size all symbolic); a failing call must leave the complete
// state untouched, a successful one must move exactly fee+tokens and queue
// exactly one message.

import (
	"bytes"

	"github.com/oasisprotocol/oasis-core/go/common"
	"github.com/oasisprotocol/oasis-core/go/common/cbor"
	"github.com/oasisprotocol/oasis-core/go/common/crypto/signature"
	memorySigner "github.com/oasisprotocol/oasis-core/go/common/crypto/signature/signers/memory"
	"github.com/oasisprotocol/oasis-core/go/common/node"
	"github.com/oasisprotocol/oasis-core/go/common/quantity"
	abciAPI "github.com/oasisprotocol/oasis-core/go/consensus/cometbft/api"
	registryState "github.com/oasisprotocol/oasis-core/go/consensus/cometbft/apps/registry/state"
	roothashState "github.com/oasisprotocol/oasis-core/go/consensus/cometbft/apps/roothash/state"
	stakingState "github.com/oasisprotocol/oasis-core/go/consensus/cometbft/apps/staking/state"
	symx "github.com/oasisprotocol/oasis-core/go/internal/verifsymx"
	registry "github.com/oasisprotocol/oasis-core/go/registry/api"
	roothash "github.com/oasisprotocol/oasis-core/go/roothash/api"
	"github.com/oasisprotocol/oasis-core/go/roothash/api/block"
	"github.com/oasisprotocol/oasis-core/go/roothash/api/commitment"
	"github.com/oasisprotocol/oasis-core/go/roothash/api/message"
	scheduler "github.com/oasisprotocol/oasis-core/go/scheduler/api"
	staking "github.com/oasisprotocol/oasis-core/go/staking/api"
)

func hQ(name string) *quantity.Quantity {
	q := quantity.NewQuantity()
	if err := q.FromBigInt(symx.Nat(name)); err != nil {
		symx.Unreachable("non-negative integer rejected by FromBigInt")
	}
	return q
}

type hKV struct{ k, v []byte }

func hSnapshot(ctx *abciAPI.Context) []hKV {
	var out []hKV
	it := ctx.State().NewIterator(ctx)
	defer it.Close()
	for it.Rewind(); it.Valid(); it.Next() {
		out = append(out, hKV{append([]byte{}, it.Key()...), it.Value()})
	}
	return out
}

func hSame(a, b []hKV) bool {
	if len(a) != len(b) {
		return false
	}
	for i := range a {
		if !bytes.Equal(a[i].k, b[i].k) || !bytes.Equal(a[i].v, b[i].v) {
			return false
		}
	}
	return true
}

func hMust(err error, what string) { symx.Assert(err == nil, what+" failed") }

// VerifRootSubmitMsg.
func VerifRootSubmitMsg() {
	appState := abciAPI.NewMockApplicationState(&abciAPI.MockApplicationStateConfig{})
	ctx := appState.NewContext(abciAPI.ContextEndBlock)
	app := &Application{appState, nil, nil}

	var callerPK, nodePK signature.PublicKey
	callerPK[0], callerPK[31] = 1, 0x77
	nodePK[0], nodePK[31] = 2, 0x77
	caller := staking.NewAddress(callerPK)

	var rtID common.Namespace
	rtID[0] = 0x80
	runtime := registry.Runtime{ID: rtID}
	runtime.Executor.MaxMessages = 32
	runtime.TxnScheduler.MaxInMessages = symx.Uint32("maxInMessages")
	runtime.Staking.MinInMessageFee = *hQ("minInMessageFee")

	st := stakingState.NewMutableState(ctx.State())
	hMust(st.SetConsensusParameters(ctx, &staking.ConsensusParameters{}), "staking.SetConsensusParameters")
	callerAcct := &staking.Account{}
	callerAcct.General.Balance = *hQ("callerBalance")
	hMust(st.SetAccount(ctx, caller, callerAcct), "SetAccount")
	rtAddr := staking.NewRuntimeAddress(rtID)
	rtAcct := &staking.Account{}
	rtAcct.General.Balance = *hQ("runtimeBalance")
	hMust(st.SetAccount(ctx, rtAddr, rtAcct), "SetAccount")

	committee := scheduler.Committee{
		RuntimeID: rtID,
		Kind:      scheduler.KindComputeExecutor,
		Members:   []*scheduler.CommitteeNode{{Role: scheduler.RoleWorker, PublicKey: nodePK}},
	}
	rs := roothashState.NewMutableState(ctx.State())
	hMust(rs.SetConsensusParameters(ctx, &roothash.ConsensusParameters{MaxRuntimeMessages: 32}), "roothash.SetConsensusParameters")
	blk := block.NewGenesisBlock(rtID, 0)
	suspended := symx.Bool("suspended")
	hMust(rs.SetRuntimeState(ctx, &roothash.RuntimeState{
		Runtime: &runtime, Suspended: suspended, GenesisBlock: blk, LastBlock: blk, LastBlockHeight: 1, LastNormalHeight: 1,
		CommitmentPool: commitment.NewPool(), Committee: &committee,
	}), "SetRuntimeState")
	size, next := symx.Uint32("queueSize"), symx.Uint64("queueNext")
	hMust(rs.SetIncomingMessageQueueMeta(ctx, rtID, &message.IncomingMessageQueueMeta{Size: size, NextSequenceNumber: next}), "SetIncomingMessageQueueMeta")

	msg := &roothash.SubmitMsg{ID: rtID, Tag: symx.Uint64("tag"), Fee: *hQ("fee"), Tokens: *hQ("tokens"), Data: []byte("hello")}
	if symx.Bool("otherRuntime") {
		msg.ID[1] = 0xDE
	}

	before := hSnapshot(ctx)
	txCtx := appState.NewContext(abciAPI.ContextDeliverTx)
	txCtx.SetTxSigner(callerPK)
	err := app.submitMsg(txCtx, roothashState.NewMutableState(txCtx.State()), msg)
	txCtx.Close()

	if err != nil {
		symx.Assert(hSame(before, hSnapshot(ctx)), "a failed SubmitMsg changed the consensus state")
		symx.Cover("submit-failed")
		return
	}
	symx.Cover("submit-ok")
	total := msg.Fee.Clone()
	_ = total.Add(&msg.Tokens)
	a, aerr := st.Account(ctx, caller)
	hMust(aerr, "Account")
	want := callerAcct.General.Balance.Clone()
	symx.Assert(want.Sub(total) == nil && a.General.Balance.Cmp(want) == 0, "caller not debited by exactly fee+tokens")
	r, rerr := st.Account(ctx, rtAddr)
	hMust(rerr, "Account")
	wantR := rtAcct.General.Balance.Clone()
	_ = wantR.Add(total)
	symx.Assert(r.General.Balance.Cmp(wantR) == 0, "runtime account not credited by exactly fee+tokens")
	meta, merr := rs.IncomingMessageQueueMeta(ctx, rtID)
	hMust(merr, "IncomingMessageQueueMeta")
	symx.Assert(size < runtime.TxnScheduler.MaxInMessages, "message queued although the queue was full")
	symx.Assert(meta.Size == size+1 && meta.NextSequenceNumber == next+1, "queue metadata not advanced by one")
	symx.Assert(msg.Fee.Cmp(&runtime.Staking.MinInMessageFee) >= 0, "message accepted with a fee below the runtime's minimum")
}

// VerifRootEvidence: one SubmitEvidence transaction (proposal equivocation: two validly signed,
// conflicting proposal headers of one node for one round). Symbolic: whether the signing node
// is registered, the slash amount, the entity's escrow, rounds and the evidence age limit,
// whether the same evidence was already recorded, the reward percentage.
func VerifRootEvidence() {
	signature.UnsafeResetChainContext()
	signature.SetChainContext("aaaaaaaaaaaaaaaaaaaaaaaaaaaaaaaaaaaaaaaaaaaaaaaaaaaaaaaaaaaaaaaa")
	appState := abciAPI.NewMockApplicationState(&abciAPI.MockApplicationStateConfig{})
	ctx := appState.NewContext(abciAPI.ContextEndBlock)
	app := &Application{appState, nil, nil}

	var callerPK, entityPK, nodePK signature.PublicKey
	callerPK[0], callerPK[31] = 1, 0x77
	entityPK[0], entityPK[31] = 3, 0x77
	var signer signature.Signer
	if symx.Symbolic() {
		nodePK[0], nodePK[31] = 2, 0x77
	} else {
		signer = memorySigner.NewTestSigner("verif rootapp equivocating node")
		nodePK = signer.Public()
	}
	caller, entityAddr := staking.NewAddress(callerPK), staking.NewAddress(entityPK)

	var rtID common.Namespace
	rtID[0] = 0x80
	runtime := registry.Runtime{ID: rtID}
	runtime.Staking.Slashing = map[staking.SlashReason]staking.Slash{
		staking.SlashRuntimeEquivocation: {Amount: *hQ("slashAmount")},
	}
	pct := symx.Uint8("runtimeRewardPercent")
	symx.Assume(pct <= 100)
	runtime.Staking.RewardSlashEquvocationRuntimePercent = pct

	st := stakingState.NewMutableState(ctx.State())
	hMust(st.SetConsensusParameters(ctx, &staking.ConsensusParameters{}), "staking.SetConsensusParameters")
	total := quantity.NewQuantity()
	ent := &staking.Account{}
	ent.Escrow.Active.Balance = *hQ("entityEscrow")
	ent.Escrow.Active.TotalShares = *hQ("entityShares")
	symx.Assume(!ent.Escrow.Active.TotalShares.IsZero() || ent.Escrow.Active.Balance.IsZero())
	_ = total.Add(&ent.Escrow.Active.Balance)
	hMust(st.SetAccount(ctx, entityAddr, ent), "SetAccount")
	if !ent.Escrow.Active.TotalShares.IsZero() {
		hMust(st.SetDelegation(ctx, entityAddr, entityAddr, &staking.Delegation{Shares: ent.Escrow.Active.TotalShares}), "SetDelegation")
	}
	cAcct := &staking.Account{}
	cAcct.General.Balance = *hQ("callerBalance")
	_ = total.Add(&cAcct.General.Balance)
	hMust(st.SetAccount(ctx, caller, cAcct), "SetAccount")
	cp := hQ("commonPool")
	_ = total.Add(cp)
	hMust(st.SetCommonPool(ctx, cp), "SetCommonPool")
	hMust(st.SetTotalSupply(ctx, total), "SetTotalSupply")

	if symx.Bool("nodeRegistered") {
		nd := &node.Node{Versioned: cbor.NewVersioned(node.LatestNodeDescriptorVersion), ID: nodePK, EntityID: entityPK, Expiration: 100, Roles: node.RoleComputeWorker}
		var k [4]signature.PublicKey
		for i := range k {
			k[i][0], k[i][31] = byte(20+i), 0x77
		}
		nd.Consensus.ID, nd.P2P.ID, nd.TLS.PubKey, nd.VRF.ID = k[0], k[1], k[2], k[3]
		sn := &node.MultiSignedNode{}
		sn.Blob = cbor.Marshal(nd)
		hMust(registryState.NewMutableState(ctx.State()).SetNode(ctx, nil, nd, sn), "SetNode")
	}

	committee := scheduler.Committee{RuntimeID: rtID, Kind: scheduler.KindComputeExecutor,
		Members: []*scheduler.CommitteeNode{{Role: scheduler.RoleWorker, PublicKey: nodePK}}}
	rs := roothashState.NewMutableState(ctx.State())
	hMust(rs.SetConsensusParameters(ctx, &roothash.ConsensusParameters{MaxRuntimeMessages: 32, MaxEvidenceAge: symx.Uint64("maxEvidenceAge")}), "roothash.SetConsensusParameters")
	blk := block.NewGenesisBlock(rtID, 0)
	blk.Header.Round = symx.Uint64("currentRound")
	hMust(rs.SetRuntimeState(ctx, &roothash.RuntimeState{
		Runtime: &runtime, GenesisBlock: blk, LastBlock: blk, LastBlockHeight: 1, LastNormalHeight: 1,
		CommitmentPool: commitment.NewPool(), Committee: &committee,
	}), "SetRuntimeState")

	// the evidence: two conflicting proposals for one round, both signed by the node
	round := symx.Uint64("evidenceRound")
	mk := func(batch byte) commitment.Proposal {
		p := commitment.Proposal{NodeID: nodePK, Header: commitment.ProposalHeader{Round: round}}
		p.Header.BatchHash[0] = batch
		if symx.Symbolic() {
			sigCtx, err := commitment.ProposalSignatureContext.WithSuffix(rtID.String())
			hMust(err, "WithSuffix")
			msg, err := signature.PrepareSignerMessage(sigCtx, cbor.Marshal(p.Header))
			hMust(err, "PrepareSignerMessage")
			copy(p.Signature[:], symx.HonestSignature(nodePK[:], msg))
		} else {
			hMust(p.Sign(signer, rtID), "Sign")
		}
		return p
	}
	ev := &roothash.Evidence{ID: rtID, EquivocationProposal: &roothash.EquivocationProposalEvidence{ProposalA: mk(1), ProposalB: mk(2)}}
	if symx.Bool("alreadyRecorded") {
		h, err := ev.Hash()
		hMust(err, "Evidence.Hash")
		hMust(rs.SetEvidenceHash(ctx, rtID, round, h), "SetEvidenceHash")
	}

	before := hSnapshot(ctx)
	txCtx := appState.NewContext(abciAPI.ContextDeliverTx)
	txCtx.SetTxSigner(callerPK)
	err := app.submitEvidence(txCtx, roothashState.NewMutableState(txCtx.State()), ev)
	txCtx.Close()

	if err != nil {
		symx.Assert(hSame(before, hSnapshot(ctx)), "a failed SubmitEvidence changed the consensus state")
		symx.Cover("evidence-failed")
		return
	}
	symx.Cover("evidence-ok")
	h, _ := ev.Hash()
	exists, xerr := rs.EvidenceHashExists(ctx, rtID, round, h)
	symx.Assert(xerr == nil && exists, "accepted evidence not recorded")
	// the slashed funds only move: supply unchanged
	sum := quantity.NewQuantity()
	for _, a := range []staking.Address{entityAddr, caller, staking.NewRuntimeAddress(rtID)} {
		acct, aerr := st.Account(ctx, a)
		hMust(aerr, "Account")
		_ = sum.Add(&acct.General.Balance)
		_ = sum.Add(&acct.Escrow.Active.Balance)
		_ = sum.Add(&acct.Escrow.Debonding.Balance)
	}
	cpAfter, _ := st.CommonPool(ctx)
	_ = sum.Add(cpAfter)
	symx.Assert(sum.Cmp(total) == 0, "slashing for equivocation changed the total of balances and pools")
}
