package transaction

// C09(2): a transaction envelope opens only if it carries the signer's
// signature over exactly its bytes under this chain's transaction context.

import (
	"github.com/oasisprotocol/oasis-core/go/common/cbor"
	"github.com/oasisprotocol/oasis-core/go/common/crypto/signature"
	memorySigner "github.com/oasisprotocol/oasis-core/go/common/crypto/signature/signers/memory"
	symx "github.com/oasisprotocol/oasis-core/go/internal/verifsymx"
)

var vOtherContext = signature.NewContext("oasis-core/verif: other domain", signature.WithChainSeparation())

const (
	vChainA = "aaaaaaaaaaaaaaaaaaaaaaaaaaaaaaaaaaaaaaaaaaaaaaaaaaaaaaaaaaaaaaaa"
	vChainB = "aaaaaaaaaaaaaaaaaaaaaaaaaaaaaaaabaaaaaaaaaaaaaaaaaaaaaaaaaaaaaaa"
)

// VerifC09Open: an honest signer signs one transaction for chain A; the
// adversary presents any envelope derived from it.
func VerifC09Open() {
	signature.UnsafeResetChainContext()
	signature.SetChainContext(vChainA)
	tx := &Transaction{Nonce: symx.Uint64("nonce"), Method: "staking.Transfer", Body: cbor.RawMessage{0xa0}}
	blob := cbor.Marshal(tx)

	var pk signature.PublicKey
	var sig []byte
	if symx.Symbolic() {
		pk[0], pk[31] = 1, 0x77
		data, err := signature.PrepareSignerMessage(SignatureContext, blob)
		symx.Assert(err == nil, "PrepareSignerMessage failed")
		sig = symx.HonestSignature(pk[:], data)
	} else {
		signer := memorySigner.NewTestSigner("verif C09")
		pk = signer.Public()
		s, err := signer.ContextSign(SignatureContext, blob)
		symx.Assert(err == nil, "signing failed")
		sig = s
	}

	var st SignedTransaction
	// blob presented by the adversary
	blobMod := symx.Choose("blobMod", 4)
	switch blobMod {
	case 0:
		st.Blob = blob
	case 1: // one byte altered (any position, any non-zero difference)
		b := append([]byte{}, blob...)
		i := symx.Choose("flipAt", len(b)) % len(b) // (natively the real CBOR blob may be shorter than the model blob)
		d := symx.Uint8("flipBy")
		symx.Assume(d != 0)
		b[i] ^= d
		st.Blob = b
	case 2: // truncated
		st.Blob = append([]byte{}, blob[:len(blob)-1]...)
	case 3: // extended
		st.Blob = append(append([]byte{}, blob...), symx.Uint8("extra"))
	}
	pkMod := symx.Bool("pkMod")
	st.Signature.PublicKey = pk
	if pkMod {
		other := symx.Bytes("otherPk", 32)
		copy(st.Signature.PublicKey[:], other)
		symx.Assume(st.Signature.PublicKey != pk)
	}
	sigMod := symx.Bool("sigMod")
	copy(st.Signature.Signature[:], sig)
	if sigMod {
		forged := symx.Bytes("forgedSig", 64)
		copy(st.Signature.Signature[:], forged)
		symx.Assume(string(forged) != string(sig))
	}
	// the verifying node may be on another chain, or verify under another message domain
	chainMod := symx.Bool("chainMod")
	if chainMod {
		signature.UnsafeResetChainContext()
		signature.SetChainContext(vChainB)
	}
	ctxMod := symx.Bool("ctxMod")
	ctx := SignatureContext
	if ctxMod {
		ctx = vOtherContext
	}
	ok := st.Signature.Verify(ctx, st.Blob)
	if ok {
		symx.Assert(blobMod == 0, "altered transaction bytes accepted")
		symx.Assert(!pkMod, "signature accepted for a different signer")
		symx.Assert(!chainMod, "transaction signed for another chain accepted")
		symx.Assert(!ctxMod, "signature accepted under a different message domain")
		symx.Cover("accepted")
	} else {
		symx.Assert(blobMod != 0 || pkMod || sigMod || chainMod || ctxMod, "honest transaction rejected")
		symx.Cover("rejected")
	}
	if blobMod == 0 && !pkMod && !sigMod && !chainMod && !ctxMod {
		var out Transaction
		symx.Assert(st.Open(&out) == nil, "honest envelope does not open")
		symx.Assert(out.Nonce == tx.Nonce && out.Method == tx.Method, "opened transaction differs from the signed one")
		symx.Cover("opened")
	}
	signature.UnsafeResetChainContext()
}
