package signature

// C09(3): domain separation of everything that is ever signed. The table of
// signature contexts (vContextSpecs) is regenerated from the repository's
// sources on every run. For every pair of contexts, with the chain context and
// the dynamic suffixes symbolic, the byte strings that get hashed and signed,
// context' || message, can never coincide for any two messages: neither prepared
// context is a prefix of the other. (The signed bytes are H(context' || message)
// with no length prefix, so a prefix relation is exactly what would let a
// signature made for one purpose verify for another.)

import (
	"bytes"

	symx "github.com/oasisprotocol/oasis-core/go/internal/verifsymx"
)

type vContextSpec struct {
	raw    string
	chain  bool
	dyn    string
	dynmax int
	where  string
}

func VerifC09Contexts() {
	UnsafeResetChainContext()
	defer UnsafeResetChainContext()
	// the chain context: any string of the maximal length (it is the hex genesis hash in practice)
	SetChainContext(string(symx.Bytes("chain", chainContextMaxSize)))
	n := len(vContextSpecs)
	symx.Assert(n >= 2, "no signature contexts found")
	// registering every context runs the real sanity checks of NewContext (length, separator, duplicates)
	ctxs := make([]Context, n)
	for k, s := range vContextSpecs {
		var opts []ContextOption
		if s.chain {
			opts = append(opts, WithChainSeparation())
		}
		if s.dyn != "" {
			opts = append(opts, WithDynamicSuffix(s.dyn, s.dynmax))
		}
		ctxs[k] = NewContext(s.raw, opts...)
	}
	i := symx.Choose("i", n)
	j := symx.Choose("j", n)
	symx.Assume(i < j)
	prepared := func(k int, tag string) []byte {
		c := ctxs[k]
		if s := vContextSpecs[k]; s.dyn != "" {
			// the dynamic suffix: any string of the maximal, a shorter or zero length
			l := []int{s.dynmax, s.dynmax / 2, 0}[symx.Choose(tag+"SuffixLen", 3)]
			var err error
			c, err = c.WithSuffix(string(symx.Bytes(tag+"Suffix", l)))
			symx.Assert(err == nil, "WithSuffix failed")
		}
		p, err := PrepareSignerContext(c)
		symx.Assert(err == nil, "PrepareSignerContext failed")
		return p
	}
	pi, pj := prepared(i, "a"), prepared(j, "b")
	symx.Assert(!bytes.HasPrefix(pi, pj) && !bytes.HasPrefix(pj, pi), "two signature contexts admit messages with identical signed bytes (one prepared context is a prefix of the other)")
	// and through the real message preparation, for short messages
	ci, cj := ctxs[i], ctxs[j]
	if vContextSpecs[i].dyn == "" && vContextSpecs[j].dyn == "" {
		m1 := symx.Bytes("m1", symx.Choose("m1Len", 3))
		m2 := symx.Bytes("m2", symx.Choose("m2Len", 3))
		d1, err1 := PrepareSignerMessage(ci, m1)
		d2, err2 := PrepareSignerMessage(cj, m2)
		symx.Assert(err1 == nil && err2 == nil, "PrepareSignerMessage failed")
		symx.Assert(!bytes.Equal(d1, d2), "messages under two different contexts have the same signed digest")
		symx.Cover("digests")
	}
	symx.Cover("end")
}
