package checkpoint

// A model of the part of Badger's managed (multi-version) mode that the node
// database uses, so that the REAL node database code (badger.go: batches, root
// metadata, Finalize, Prune, GetNode, HasRoot, multipart bookkeeping) can be
// executed symbolically. Under the engine every Badger method used by the
// package is redirected to a function below; natively the real Badger runs
// in memory (which also validates this model: sampled paths are replayed).
//
// Semantics modelled (Badger managed mode): every write carries a version
// (timestamp); a transaction opened at read timestamp T sees, per key, the newest
// version with timestamp <= T, and nothing if that version is a delete marker; a
// transaction sees its own pending writes; CommitAt(ts) and WriteBatch.Flush()
// apply their writes atomically at the given timestamps; a later write of the
// same key at the same timestamp replaces the earlier one; iterators yield the
// visible keys with the given prefix in ascending byte order.

import (
	"bytes"

	"github.com/dgraph-io/badger/v4"

	cmnBadger "github.com/oasisprotocol/oasis-core/go/common/badger"
	"github.com/oasisprotocol/oasis-core/go/common/logging"
	"github.com/oasisprotocol/oasis-core/go/storage/mkvs/db/api"
)

type vbEntry struct {
	key     []byte
	ts      uint64
	val     []byte
	deleted bool
}

type vbStore struct{ ents []vbEntry }

type vbWrite struct {
	key     []byte
	val     []byte
	deleted bool
	ts      uint64 // 0: the batch / commit timestamp
}

type vbTxn struct {
	st      *vbStore
	readTs  uint64
	pending []vbWrite
}

type vbBatch struct {
	st      *vbStore
	ts      uint64
	pending []vbWrite
}

type vbIter struct {
	items []*badger.Item
	pos   int
}

type vbItem struct {
	key []byte
	val []byte
	ts  uint64
}

var (
	vbStores  = map[*badger.DB]*vbStore{}
	vbTxns    = map[*badger.Txn]*vbTxn{}
	vbBatches = map[*badger.WriteBatch]*vbBatch{}
	vbIters   = map[*badger.Iterator]*vbIter{}
	vbItems   = map[*badger.Item]*vbItem{}
)

func (s *vbStore) apply(w vbWrite, ts uint64) {
	if w.ts != 0 {
		ts = w.ts
	}
	for i := range s.ents {
		if s.ents[i].ts == ts && bytes.Equal(s.ents[i].key, w.key) {
			s.ents[i].val, s.ents[i].deleted = w.val, w.deleted
			return
		}
	}
	s.ents = append(s.ents, vbEntry{key: w.key, ts: ts, val: w.val, deleted: w.deleted})
}

// visible returns the newest version of key with timestamp <= readTs.
func (s *vbStore) visible(key []byte, readTs uint64) *vbEntry {
	var best *vbEntry
	for i := range s.ents {
		e := &s.ents[i]
		if e.ts <= readTs && bytes.Equal(e.key, key) && (best == nil || e.ts > best.ts) {
			best = e
		}
	}
	return best
}

// vbDisk, when set, is the durable store every OpenManaged binds to (a database reopened after a crash);
// vbCrashAt selects the durable write (a batch flush or a transaction commit, counted from 1) before
// which the process "dies": the write and everything after it never happens.
var (
	vbDisk               *vbStore
	vbCommits, vbCrashAt int
	vbCrashed            bool
)

type vbCrash struct{}

func vbCommitPoint() {
	vbCommits++
	if vbCrashAt != 0 && vbCommits == vbCrashAt {
		vbCrashed = true
		panic(vbCrash{})
	}
}

func vbOpenManaged(badger.Options) (*badger.DB, error) {
	db := new(badger.DB)
	if vbDisk != nil {
		vbStores[db] = vbDisk
	} else {
		vbStores[db] = &vbStore{}
	}
	return db, nil
}

func vbOptions(*api.Config, any) badger.Options { return badger.Options{} }

func vbNewGCWorker(*logging.Logger, *badger.DB) *cmnBadger.GCWorker { return nil }
func vbGCStart(*cmnBadger.GCWorker)                                 {}
func vbGCStop(*cmnBadger.GCWorker)                                  {}

func vbSetDiscardTs(*badger.DB, uint64) {}
func vbSync(*badger.DB) error           { return nil }
func vbSize(*badger.DB) (int64, int64)  { return 0, 0 }
func vbFlatten(*badger.DB, int) error   { return nil }
func vbClose(*badger.DB) error          { return nil }

func vbNewTransactionAt(db *badger.DB, readTs uint64, _ bool) *badger.Txn {
	t := new(badger.Txn)
	vbTxns[t] = &vbTxn{st: vbStores[db], readTs: readTs}
	return t
}

func vbNewWriteBatchAt(db *badger.DB, ts uint64) *badger.WriteBatch {
	b := new(badger.WriteBatch)
	vbBatches[b] = &vbBatch{st: vbStores[db], ts: ts}
	return b
}

func vbNewItem(key, val []byte, ts uint64) *badger.Item {
	it := new(badger.Item)
	vbItems[it] = &vbItem{key: key, val: val, ts: ts}
	return it
}

func vbTxnGet(txn *badger.Txn, key []byte) (*badger.Item, error) {
	t := vbTxns[txn]
	for i := len(t.pending) - 1; i >= 0; i-- {
		if bytes.Equal(t.pending[i].key, key) {
			if t.pending[i].deleted {
				return nil, badger.ErrKeyNotFound
			}
			return vbNewItem(t.pending[i].key, t.pending[i].val, t.readTs), nil
		}
	}
	e := t.st.visible(key, t.readTs)
	if e == nil || e.deleted {
		return nil, badger.ErrKeyNotFound
	}
	return vbNewItem(e.key, e.val, e.ts), nil
}

func vbTxnSet(txn *badger.Txn, key, val []byte) error {
	t := vbTxns[txn]
	t.pending = append(t.pending, vbWrite{key: append([]byte{}, key...), val: append([]byte{}, val...)})
	return nil
}

func vbTxnDelete(txn *badger.Txn, key []byte) error {
	t := vbTxns[txn]
	t.pending = append(t.pending, vbWrite{key: append([]byte{}, key...), deleted: true})
	return nil
}

func vbTxnCommitAt(txn *badger.Txn, commitTs uint64, _ func(error)) error {
	vbCommitPoint()
	t := vbTxns[txn]
	for _, w := range t.pending {
		t.st.apply(w, commitTs)
	}
	t.pending = nil
	return nil
}

func vbTxnDiscard(txn *badger.Txn) {
	if t := vbTxns[txn]; t != nil {
		t.pending = nil
	}
}

func vbTxnNewIterator(txn *badger.Txn, opt badger.IteratorOptions) *badger.Iterator {
	t := vbTxns[txn]
	// visible keys with the prefix (pending writes of the transaction included)
	var keys [][]byte
	add := func(k []byte) {
		if !bytes.HasPrefix(k, opt.Prefix) {
			return
		}
		for _, have := range keys {
			if bytes.Equal(have, k) {
				return
			}
		}
		keys = append(keys, k)
	}
	for i := range t.st.ents {
		add(t.st.ents[i].key)
	}
	for i := range t.pending {
		add(t.pending[i].key)
	}
	// ascending byte order (insertion sort with symbolic comparisons)
	for i := 1; i < len(keys); i++ {
		for j := i; j > 0 && bytes.Compare(keys[j-1], keys[j]) > 0; j-- {
			keys[j-1], keys[j] = keys[j], keys[j-1]
		}
	}
	iter := &vbIter{}
	for _, k := range keys {
		if item, err := vbTxnGet(txn, k); err == nil {
			iter.items = append(iter.items, item)
		}
	}
	it := new(badger.Iterator)
	vbIters[it] = iter
	return it
}

func vbIterRewind(it *badger.Iterator)            { vbIters[it].pos = 0 }
func vbIterValid(it *badger.Iterator) bool        { i := vbIters[it]; return i.pos < len(i.items) }
func vbIterNext(it *badger.Iterator)              { vbIters[it].pos++ }
func vbIterItem(it *badger.Iterator) *badger.Item { i := vbIters[it]; return i.items[i.pos] }
func vbIterClose(*badger.Iterator)                {}

func vbItemKey(item *badger.Item) []byte               { return vbItems[item].key }
func vbItemKeyCopy(item *badger.Item, _ []byte) []byte { return append([]byte{}, vbItems[item].key...) }
func vbItemVersion(item *badger.Item) uint64           { return vbItems[item].ts }
func vbItemValue(item *badger.Item, fn func([]byte) error) error {
	return fn(vbItems[item].val)
}

func vbBatchSet(b *badger.WriteBatch, k, v []byte) error {
	x := vbBatches[b]
	x.pending = append(x.pending, vbWrite{key: append([]byte{}, k...), val: append([]byte{}, v...)})
	return nil
}

func vbBatchDelete(b *badger.WriteBatch, k []byte) error {
	x := vbBatches[b]
	x.pending = append(x.pending, vbWrite{key: append([]byte{}, k...), deleted: true})
	return nil
}

func vbBatchDeleteAt(b *badger.WriteBatch, k []byte, ts uint64) error {
	x := vbBatches[b]
	x.pending = append(x.pending, vbWrite{key: append([]byte{}, k...), deleted: true, ts: ts})
	return nil
}

func vbBatchFlush(b *badger.WriteBatch) error {
	vbCommitPoint()
	x := vbBatches[b]
	for _, w := range x.pending {
		x.st.apply(w, x.ts)
	}
	x.pending = nil
	return nil
}

func vbBatchCancel(b *badger.WriteBatch) {
	if x := vbBatches[b]; x != nil {
		x.pending = nil
	}
}
