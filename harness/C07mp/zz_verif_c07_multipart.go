package checkpoint

// C07 (checkpoint-chunk restore): the node database survives a crash at any point
// of a multipart restore. History: optionally version 1 committed and finalized in
// the target database. A checkpoint of a symbolic tree at a later version (made by
// the real sequential chunker, one leaf per chunk) is restored the way the consensus
// layer does it: StartMultipartInsert, StartRestore, RestoreChunk for every chunk,
// Finalize of the restored root - or, with cfg abort=1, the restore is given up
// after the first chunk (AbortRestore + AbortMultipartInsert). The process dies right
// before a symbolic one of the durable writes of that procedure (batch flushes and
// metadata commits; each is atomic in Badger) and the database is reopened on what
// had been written. Then:
//   - every previously finalized version is completely readable;
//   - the checkpoint's root is visible as a finalized root only if it is completely
//     readable with exactly the checkpointed contents (no partially restored
//     checkpoint is visible);
//   - unless the restore has taken full effect, it can simply be repeated to
//     completion, after which the restored root is completely readable and the
//     earlier version still is.
//
// Under the engine Badger is the harness model (zz_verif_vbadger.go) and the crash is
// the n-th flush / commit of the model; natively the database is on disk in a temporary
// directory, the crash is the verif-tagged crash point in front of every durable write
// of the back ends, and the reopen is a real reopen of the directory.

import (
	"bytes"
	"os"

	symx "github.com/oasisprotocol/oasis-core/go/internal/verifsymx"
	"github.com/oasisprotocol/oasis-core/go/storage/mkvs"
	"github.com/oasisprotocol/oasis-core/go/storage/mkvs/db/api"
	badgerdb "github.com/oasisprotocol/oasis-core/go/storage/mkvs/db/badger"
	"github.com/oasisprotocol/oasis-core/go/storage/mkvs/db/pathbadger"
	"github.com/oasisprotocol/oasis-core/go/storage/mkvs/node"
)

type c07KV struct{ k, v []byte }

func c07Set(m []c07KV, k, v []byte) []c07KV {
	for i := range m {
		if bytes.Equal(m[i].k, k) {
			m[i].v = v
			return m
		}
	}
	return append(m, c07KV{k, v})
}

// c07CheckRoot reads every key of the reference contents (and one absent probe) through a fresh tree.
func c07CheckRoot(db api.NodeDB, root node.Root, want []c07KV, probe []byte, label string) {
	t := mkvs.NewWithRoot(nil, db, root)
	defer t.Close()
	for _, e := range want {
		v, err := t.Get(c12Ctx, e.k)
		symx.Assert(err == nil, label+": a key of a finalized version cannot be read")
		symx.Assert(v != nil && bytes.Equal(v, e.v), label+": a finalized version returns a different value")
	}
	present := false
	for _, e := range want {
		if bytes.Equal(e.k, probe) {
			present = true
		}
	}
	if !present {
		v, err := t.Get(c12Ctx, probe)
		symx.Assert(err == nil && v == nil, label+": a finalized version returns a value for an absent key")
	}
	n := 0
	it := t.NewIterator(c12Ctx)
	defer it.Close()
	for it.Rewind(); it.Valid(); it.Next() {
		n++
	}
	symx.Assert(it.Err() == nil && n == len(want), label+": iteration over a finalized version does not yield its keys")
}

func c07Arm(n int) {
	api.VerifCrashAt = n
	api.VerifCrashReset()
	vbCrashAt, vbCommits, vbCrashed = n, 0, false
}

// c07Run runs op; a simulated crash ends it (crashed = true).
func c07Run(op func() error) (crashed bool, err error) {
	defer func() {
		if r := recover(); r != nil {
			if !(vbCrashed || api.VerifCrashed) {
				panic(r)
			}
			crashed = true
		}
		c07Arm(0)
	}()
	err = op()
	return
}

func VerifC07Multipart() {
	backend := symx.Cfg("backend", 0)
	cfg := &api.Config{Namespace: c12Ns, NoFsync: true, MaxCacheSize: 16 * 1024 * 1024}
	if symx.Symbolic() {
		vbDisk = &vbStore{}
		cfg.MemoryOnly = true
	} else {
		dir, err := os.MkdirTemp("", "verif-c07mp")
		symx.Assert(err == nil, "MkdirTemp failed")
		defer os.RemoveAll(dir)
		cfg.DB = dir
	}
	open := func() (api.NodeDB, error) {
		if backend == 1 {
			return pathbadger.New(cfg)
		}
		return badgerdb.New(cfg)
	}
	c07Arm(0)
	db, err := open()
	symx.Assert(err == nil, "opening the node database failed")

	// earlier history of the target database: version 1, finalized
	var c1 []c07KV
	var r1 node.Root
	prev := symx.Cfg("prev", 1) == 1
	pv := uint64(symx.Cfg("pv", 1)) // the earlier version's number (0: a genesis version)
	if prev {
		t := mkvs.New(nil, db, node.RootTypeState)
		key, val := symx.Bytes("prevKey", 1), symx.Bytes("prevVal", 1)
		symx.Assert(t.Insert(c12Ctx, key, val) == nil, "Insert failed")
		c1 = c07Set(c1, key, val)
		_, h1, err := t.Commit(c12Ctx, c12Ns, pv)
		symx.Assert(err == nil, "Commit of version 1 failed")
		t.Close()
		r1 = node.Root{Namespace: c12Ns, Version: pv, Type: node.RootTypeState, Hash: h1}
		symx.Assert(db.Finalize([]node.Root{r1}) == nil, "Finalize of version 1 failed")
	}

	// the checkpointed tree (may share entries, hence nodes, with version 1) and its chunks
	version := pv + uint64(symx.Cfg("gap", 2))
	src := newVMemDB()
	ts := mkvs.New(nil, src, node.RootTypeState)
	var contents []c07KV
	for i := 0; i < symx.Cfg("k", 2); i++ {
		key, val := c12Key(i), symx.Bytes(symx.N("val", i), 1)
		symx.Assert(ts.Insert(c12Ctx, key, val) == nil, "Insert failed")
		contents = c07Set(contents, key, val)
	}
	_, h, err := ts.Commit(c12Ctx, c12Ns, version)
	symx.Assert(err == nil, "Commit of the checkpointed tree failed")
	root := node.Root{Namespace: c12Ns, Version: version, Type: node.RootTypeState, Hash: h}
	wf := &vSinkFactory{}
	digests, err := (&seqChunker{ndb: src, root: root, chunkSize: 1}).chunk(c12Ctx, wf)
	symx.Assert(err == nil && len(digests) == len(wf.sinks) && len(digests) >= 1, "chunking failed")
	meta := &Metadata{Version: 1, Root: root, Chunks: digests}

	// the restore procedure as the consensus layer runs it (abci/snapshots.go)
	abortAfter := -1
	if symx.Cfg("abort", 0) == 1 {
		abortAfter = 1
	}
	restore := func(d api.NodeDB, abortAfter int) error {
		if err := d.StartMultipartInsert(version); err != nil {
			return err
		}
		rs, err := NewRestorer(d)
		if err != nil {
			return err
		}
		if err = rs.StartRestore(c12Ctx, meta); err != nil {
			return err
		}
		for j := range digests {
			if j == abortAfter {
				_ = rs.AbortRestore(c12Ctx)
				return d.AbortMultipartInsert()
			}
			i := j
			if symx.Cfg("reverse", 0) == 1 {
				i = len(digests) - 1 - j // chunks may arrive in any order
			}
			done, err := rs.RestoreChunk(c12Ctx, uint64(i), bytes.NewReader(wf.sinks[i].buf.Bytes()))
			if err != nil {
				return err
			}
			symx.Assert(done == (j == len(digests)-1), "done reported at the wrong time")
		}
		if abortAfter >= len(digests) {
			_ = rs.AbortRestore(c12Ctx)
			return d.AbortMultipartInsert()
		}
		return d.Finalize([]node.Root{root})
	}

	crashAt := 0 // cfg nocrash=1: the uninterrupted restore into a real node database (C12 on the real back ends)
	if symx.Cfg("nocrash", 0) != 1 {
		crashAt = 1 + symx.Choose("crashBeforeWrite", symx.Cfg("writes", 6))
	}
	c07Arm(crashAt)
	crashed, opErr := c07Run(func() error { return restore(db, abortAfter) })
	if !crashed {
		symx.Assert(opErr == nil, "the restore failed without a crash")
		symx.Cover("no-crash")
	} else {
		symx.Cover("crashed")
	}

	// reopen on what was durably written
	db.Close()
	db, err = open()
	symx.Assert(err == nil, "the node database does not open after a crash")
	defer db.Close()
	probe := symx.Bytes("probe", 1)
	if prev {
		c07CheckRoot(db, r1, c1, probe, "after the crash (version 1)")
	}

	latest, ok := db.GetLatestVersion()
	symx.Assert(ok == (prev || latest == version), "latest version wrong after the crash")
	if ok && latest == version {
		// the restore has taken full effect: its root is a finalized root and must be completely readable
		symx.Assert(abortAfter < 0, "an aborted restore left a finalized version behind")
		symx.Assert(db.HasRoot(root), "restored version is the latest version but its root is missing")
		c07CheckRoot(db, root, contents, probe, "restored version reported as finalized after the crash")
		symx.Cover("took-effect")
	} else {
		// no partially restored checkpoint is visible
		if prev {
			symx.Assert(ok && latest == pv, "latest version wrong after the crash")
		}
		// (its root may still be listed as a pending, non-finalized root of its version; reads under it may
		// fail, but whatever is returned without an error belongs to the checkpointed contents)
		if db.HasRoot(root) {
			tp := mkvs.NewWithRoot(nil, db, root)
			for _, e := range contents {
				v, err := tp.Get(c12Ctx, e.k)
				symx.Assert(err != nil || (v != nil && bytes.Equal(v, e.v)), "root of an interrupted restore returns contents that are not its own")
			}
			tp.Close()
			symx.Cover("pending-root-listed")
		}
		if symx.Cfg("cont", 0) == 1 && prev && version == pv+1 {
			// continued operation instead of a repeated restore: the node gives the checkpoint up and reaches the same
			// version by executing blocks on top of the earlier version, which produces the same root
			tc := mkvs.NewWithRoot(nil, db, r1)
			for _, e := range c1 {
				symx.Assert(tc.Remove(c12Ctx, e.k) == nil, "Remove failed")
			}
			for _, e := range contents {
				symx.Assert(tc.Insert(c12Ctx, e.k, e.v) == nil, "Insert failed")
			}
			_, hc, err := tc.Commit(c12Ctx, c12Ns, version)
			symx.Assert(err == nil, "after an interrupted restore the version cannot be committed normally")
			tc.Close()
			symx.Assert(hc == root.Hash, "same contents, different root")
			symx.Assert(db.Finalize([]node.Root{root}) == nil, "after an interrupted restore the normally committed version cannot be finalized")
			symx.Cover("continued")
		} else {
			// the restore can simply be repeated to completion
			symx.Assert(restore(db, -1) == nil, "the interrupted restore cannot be repeated")
			symx.Cover("repeated")
		}
	}
	symx.Assert(db.HasRoot(root), "restored root not present after the restore completed")
	c07CheckRoot(db, root, contents, probe, "after the restore completed")
	if prev {
		c07CheckRoot(db, r1, c1, probe, "after the restore completed (version 1)")
	}
	l2, ok2 := db.GetLatestVersion()
	symx.Assert(ok2 && l2 == version, "latest version is not the restored version")
	symx.Cover("end")
}
