package governance

// C08 / C05 for the governance application's transactions (SubmitProposal,
// CastVote) through the real ExecuteTx on the real state tree: a transaction
// that fails leaves the complete key/value state as it was; a submitted proposal
// moves exactly the minimum deposit from the submitter into the governance
// deposits pool (supply unchanged) and records exactly one active proposal; a
// vote is recorded only for an eligible voter on an active proposal.

import (
	"bytes"
	"fmt"

	beacon "github.com/oasisprotocol/oasis-core/go/beacon/api"
	"github.com/oasisprotocol/oasis-core/go/common/cbor"
	"github.com/oasisprotocol/oasis-core/go/common/crypto/signature"
	"github.com/oasisprotocol/oasis-core/go/common/quantity"
	"github.com/oasisprotocol/oasis-core/go/common/version"
	"github.com/oasisprotocol/oasis-core/go/consensus/api/transaction"
	abciAPI "github.com/oasisprotocol/oasis-core/go/consensus/cometbft/api"
	governanceState "github.com/oasisprotocol/oasis-core/go/consensus/cometbft/apps/governance/state"
	schedulerState "github.com/oasisprotocol/oasis-core/go/consensus/cometbft/apps/scheduler/state"
	stakingState "github.com/oasisprotocol/oasis-core/go/consensus/cometbft/apps/staking/state"
	governance "github.com/oasisprotocol/oasis-core/go/governance/api"
	symx "github.com/oasisprotocol/oasis-core/go/internal/verifsymx"
	scheduler "github.com/oasisprotocol/oasis-core/go/scheduler/api"
	staking "github.com/oasisprotocol/oasis-core/go/staking/api"
	upgrade "github.com/oasisprotocol/oasis-core/go/upgrade/api"
)

type gKV struct{ k, v []byte }

func gSnapshot(ctx *abciAPI.Context) []gKV {
	var out []gKV
	it := ctx.State().NewIterator(ctx)
	defer it.Close()
	for it.Rewind(); it.Valid(); it.Next() {
		out = append(out, gKV{append([]byte{}, it.Key()...), it.Value()})
	}
	return out
}

func gSame(a, b []gKV) bool {
	if len(a) != len(b) {
		return false
	}
	for i := range a {
		if !bytes.Equal(a[i].k, b[i].k) || !bytes.Equal(a[i].v, b[i].v) {
			return false
		}
	}
	return true
}

// gNoDispatcher stands for the other applications: a published message (the validation of proposed parameter
// changes) may be rejected by its subscriber, claimed by it, or be of interest to nobody - a symbolic choice.
type gNoDispatcher struct{}

var errGVeto = fmt.Errorf("verif: a subscriber rejected the message")

func (gNoDispatcher) Subscribe(any, abciAPI.MessageSubscriber) {}
func (gNoDispatcher) Publish(*abciAPI.Context, abciAPI.Message) (any, error) {
	switch symx.Choose("subscriberAnswer", 3) {
	case 0:
		return nil, errGVeto
	case 1:
		return nil, nil // nobody is interested
	}
	return struct{}{}, nil
}

// VerifGovTx: cfg tx selects 0 SubmitProposal(upgrade), 1 SubmitProposal(cancel upgrade), 2 CastVote.
func VerifGovTx() {
	kind := symx.Cfg("tx", 0)
	appState := abciAPI.NewMockApplicationState(&abciAPI.MockApplicationStateConfig{CurrentEpoch: gEpoch})
	ctx := appState.NewContext(abciAPI.ContextInitChain)
	app := &Application{state: appState, md: gNoDispatcher{}}
	gs := governanceState.NewMutableState(ctx.State())
	st := stakingState.NewMutableState(ctx.State())

	params := &governance.ConsensusParameters{
		MinProposalDeposit:        *gQ("minProposalDeposit"),
		VotingPeriod:              2,
		StakeThreshold:            90,
		UpgradeMinEpochDiff:       beacon.EpochTime(symx.Uint8("upgradeMinEpochDiff")),
		UpgradeCancelMinEpochDiff: beacon.EpochTime(symx.Uint8("upgradeCancelMinEpochDiff")),
		AllowVoteWithoutEntity:    symx.Bool("allowVoteWithoutEntity"),
		GasCosts: transaction.Costs{
			governance.GasOpSubmitProposal: transaction.Gas(symx.Uint64("gasCost")),
			governance.GasOpCastVote:       transaction.Gas(symx.Uint64("gasCost")),
		},
	}
	gMust(gs.SetConsensusParameters(ctx, params), "governance.SetConsensusParameters")

	aPK, vPK, nodePK := gPK(3), gPK(1), gPK(4)
	aAddr, vAddr := staking.NewAddress(aPK), staking.NewAddress(vPK)
	total := quantity.NewQuantity()
	aAcct := &staking.Account{}
	aAcct.General.Balance = *gQ("submitterBalance")
	_ = total.Add(&aAcct.General.Balance)
	gMust(st.SetAccount(ctx, aAddr, aAcct), "SetAccount")
	pool := gQ("governanceDeposits")
	_ = total.Add(pool)
	gMust(st.SetGovernanceDeposits(ctx, pool), "SetGovernanceDeposits")
	gMust(st.SetTotalSupply(ctx, total), "SetTotalSupply")
	gMust(schedulerState.NewMutableState(ctx.State()).PutCurrentValidators(ctx, map[signature.PublicKey]*scheduler.Validator{
		nodePK: {ID: nodePK, EntityID: vPK, VotingPower: 1},
	}), "PutCurrentValidators")
	if symx.Bool("delegatesToValidator") {
		gMust(st.SetDelegation(ctx, aAddr, vAddr, &staking.Delegation{Shares: *quantity.NewFromUint64(1)}), "SetDelegation")
	}

	// an accepted upgrade proposal that is still pending (id 1), or not
	desc := upgrade.Descriptor{
		Versioned: cbor.NewVersioned(upgrade.LatestDescriptorVersion),
		Handler:   "verif-handler",
		Target:    version.Versions,
		Epoch:     beacon.EpochTime(symx.Uint16("pendingUpgradeEpoch")),
	}
	symx.Assume(desc.Epoch >= upgrade.MinUpgradeEpoch)
	hasPending := symx.Bool("hasPendingUpgrade")
	old := &governance.Proposal{ID: 1, Submitter: vAddr, State: governance.StatePassed, Content: governance.ProposalContent{Upgrade: &governance.UpgradeProposal{Descriptor: desc}}, CreatedAt: 1, ClosesAt: 3}
	if hasPending {
		gMust(gs.SetProposal(ctx, old), "SetProposal")
		gMust(gs.SetPendingUpgrade(ctx, old.ID, &desc), "SetPendingUpgrade")
	}
	// an active proposal to vote on (id 2), or a closed one
	voteTarget := &governance.Proposal{ID: 2, Submitter: vAddr, State: governance.StateActive, Content: governance.ProposalContent{CancelUpgrade: &governance.CancelUpgradeProposal{ProposalID: 1}}, CreatedAt: gEpoch - 1, ClosesAt: gEpoch + 1}
	if symx.Bool("voteTargetClosed") {
		voteTarget.State = governance.StateRejected
	}
	gMust(gs.SetProposal(ctx, voteTarget), "SetProposal")
	if voteTarget.State == governance.StateActive {
		gMust(gs.SetActiveProposal(ctx, voteTarget), "SetActiveProposal")
	}
	gMust(gs.SetNextProposalIdentifier(ctx, 3), "SetNextProposalIdentifier")

	var tx transaction.Transaction
	switch kind {
	case 0:
		nd := desc
		nd.Handler = "verif-handler-2"
		nd.Epoch = beacon.EpochTime(symx.Uint16("newUpgradeEpoch"))
		tx = transaction.Transaction{Method: governance.MethodSubmitProposal, Body: cbor.Marshal(&governance.ProposalContent{Upgrade: &governance.UpgradeProposal{Descriptor: nd}})}
	case 1:
		tx = transaction.Transaction{Method: governance.MethodSubmitProposal, Body: cbor.Marshal(&governance.ProposalContent{CancelUpgrade: &governance.CancelUpgradeProposal{ProposalID: 1 + uint64(symx.Choose("cancelWhich", 2))}})}
	case 3:
		params.EnableChangeParametersProposal = symx.Bool("changeParametersEnabled")
		gMust(gs.SetConsensusParameters(ctx, params), "governance.SetConsensusParameters")
		tx = transaction.Transaction{Method: governance.MethodSubmitProposal, Body: cbor.Marshal(&governance.ProposalContent{ChangeParameters: &governance.ChangeParametersProposal{Module: "staking", Changes: cbor.Marshal(map[string]uint64{"x": 1})}})}
	default:
		v := governance.Vote(1 + symx.Choose("vote", 3))
		tx = transaction.Transaction{Method: governance.MethodCastVote, Body: cbor.Marshal(&governance.ProposalVote{ID: 2 + uint64(symx.Choose("voteWhich", 2)), Vote: v})}
	}

	ctx = appState.NewContext(abciAPI.ContextDeliverTx)
	ctx.SetTxSigner(aPK)
	ctx.SetGasAccountant(abciAPI.NewGasAccountant(transaction.Gas(symx.Uint64("gasLimit"))))
	gs = governanceState.NewMutableState(ctx.State())
	st = stakingState.NewMutableState(ctx.State())
	before := gSnapshot(ctx)
	err := app.ExecuteTx(ctx, &tx)
	if err != nil {
		symx.Cover("tx-failed")
		symx.Assert(gSame(before, gSnapshot(ctx)), "a failed governance transaction changed the consensus state")
		return
	}
	symx.Cover("tx-ok")
	ts, _ := st.TotalSupply(ctx)
	symx.Assert(ts.Cmp(total) == 0, "total supply changed")
	aAfter, _ := st.Account(ctx, aAddr)
	poolAfter, _ := st.GovernanceDeposits(ctx)
	act, aerr := gs.ActiveProposals(ctx)
	gMust(aerr, "ActiveProposals")
	if kind <= 1 || kind == 3 {
		wantA, wantPool := aAcct.General.Balance.Clone(), pool.Clone()
		symx.Assert(wantA.Sub(&params.MinProposalDeposit) == nil, "proposal accepted from a submitter who cannot pay the deposit")
		_ = wantPool.Add(&params.MinProposalDeposit)
		symx.Assert(aAfter.General.Balance.Cmp(wantA) == 0, "submitter not debited exactly the minimum deposit")
		symx.Assert(poolAfter.Cmp(wantPool) == 0, "governance deposits pool not credited exactly the minimum deposit")
		n := 0
		for _, p := range act {
			if p.ID == 3 {
				n++
				symx.Assert(p.Deposit.Cmp(&params.MinProposalDeposit) == 0 && p.Submitter == aAddr && p.State == governance.StateActive && p.ClosesAt == gEpoch+params.VotingPeriod, "recorded proposal differs from what was submitted")
			}
		}
		symx.Assert(n == 1, "submitted proposal not recorded exactly once as active")
		next, _ := gs.NextProposalIdentifier(ctx)
		symx.Assert(next == 4, "proposal identifier not advanced")
		if kind == 1 {
			symx.Assert(hasPending, "cancellation accepted for an upgrade that is not pending")
		}
	} else {
		symx.Assert(aAfter.General.Balance.Cmp(&aAcct.General.Balance) == 0 && poolAfter.Cmp(pool) == 0, "a vote moved funds")
		votes, verr := gs.Votes(ctx, 2)
		gMust(verr, "Votes")
		symx.Assert(len(votes) == 1 && votes[0].Voter == aAddr, "vote not recorded for the voter")
		symx.Assert(voteTarget.State == governance.StateActive, "vote recorded on a closed proposal")
	}
	symx.Cover("end")
}
