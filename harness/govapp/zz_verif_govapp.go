package governance

// C10 / C05 for the governance application's EndBlock: a proposal closes at the
// epoch transition; the tally (validator and delegator votes converted from
// shares to stake, percentage against the stake threshold) and the deposit
// movement run on the real state tree from a symbolic pre-state. EndBlock must
// not fail (an error there halts the chain) and must move exactly the
// proposal's deposit out of the governance deposits pool - back to the
// submitter, or into the common pool when the proposal is rejected.

import (
	beacon "github.com/oasisprotocol/oasis-core/go/beacon/api"
	"github.com/oasisprotocol/oasis-core/go/common/crypto/signature"
	"github.com/oasisprotocol/oasis-core/go/common/quantity"
	abciAPI "github.com/oasisprotocol/oasis-core/go/consensus/cometbft/api"
	governanceState "github.com/oasisprotocol/oasis-core/go/consensus/cometbft/apps/governance/state"
	schedulerState "github.com/oasisprotocol/oasis-core/go/consensus/cometbft/apps/scheduler/state"
	stakingState "github.com/oasisprotocol/oasis-core/go/consensus/cometbft/apps/staking/state"
	governance "github.com/oasisprotocol/oasis-core/go/governance/api"
	symx "github.com/oasisprotocol/oasis-core/go/internal/verifsymx"
	scheduler "github.com/oasisprotocol/oasis-core/go/scheduler/api"
	staking "github.com/oasisprotocol/oasis-core/go/staking/api"
)

func gQ(name string) *quantity.Quantity {
	q := quantity.NewQuantity()
	if err := q.FromBigInt(symx.Nat(name)); err != nil {
		symx.Unreachable("non-negative integer rejected by FromBigInt")
	}
	return q
}

func gPK(b byte) signature.PublicKey {
	var pk signature.PublicKey
	pk[0], pk[31] = b, 0x77
	return pk
}

func gMust(err error, what string) { symx.Assert(err == nil, what+" failed") }

const gEpoch = beacon.EpochTime(10)

// VerifGovEndBlock.
func VerifGovEndBlock() {
	appState := abciAPI.NewMockApplicationState(&abciAPI.MockApplicationStateConfig{CurrentEpoch: gEpoch, EpochChanged: true})
	ctx := appState.NewContext(abciAPI.ContextEndBlock)
	app := &Application{state: appState}
	gs := governanceState.NewMutableState(ctx.State())
	st := stakingState.NewMutableState(ctx.State())

	threshold := symx.Uint8("stakeThreshold")
	symx.Assume(threshold <= 100)
	gMust(gs.SetConsensusParameters(ctx, &governance.ConsensusParameters{
		StakeThreshold:     threshold,
		MinProposalDeposit: *gQ("currentMinProposalDeposit"), // (may have changed since the proposal was submitted)
		VotingPeriod:       2,
	}), "governance.SetConsensusParameters")

	// one validator entity V with delegations from itself and from D; submitter A
	vPK, dPK, aPK, nodePK := gPK(1), gPK(2), gPK(3), gPK(4)
	vAddr, dAddr, aAddr := staking.NewAddress(vPK), staking.NewAddress(dPK), staking.NewAddress(aPK)
	gMust(schedulerState.NewMutableState(ctx.State()).PutCurrentValidators(ctx, map[signature.PublicKey]*scheduler.Validator{
		nodePK: {ID: nodePK, EntityID: vPK, VotingPower: 1},
	}), "PutCurrentValidators")

	total := quantity.NewQuantity()
	vAcct := &staking.Account{}
	vAcct.Escrow.Active.Balance = *gQ("validatorEscrow")
	symx.Assume(!vAcct.Escrow.Active.Balance.IsZero()) // documented precondition: the validator set has stake
	self, del := gQ("selfShares"), gQ("delegatorShares")
	_ = vAcct.Escrow.Active.TotalShares.Add(self)
	_ = vAcct.Escrow.Active.TotalShares.Add(del)
	symx.Assume(!vAcct.Escrow.Active.TotalShares.IsZero())
	_ = total.Add(&vAcct.Escrow.Active.Balance)
	gMust(st.SetAccount(ctx, vAddr, vAcct), "SetAccount")
	if !self.IsZero() {
		gMust(st.SetDelegation(ctx, vAddr, vAddr, &staking.Delegation{Shares: *self}), "SetDelegation")
	}
	if !del.IsZero() {
		gMust(st.SetDelegation(ctx, dAddr, vAddr, &staking.Delegation{Shares: *del}), "SetDelegation")
	}
	aAcct := &staking.Account{}
	aAcct.General.Balance = *gQ("submitterBalance")
	_ = total.Add(&aAcct.General.Balance)
	gMust(st.SetAccount(ctx, aAddr, aAcct), "SetAccount")

	deposit := gQ("proposalDeposit")
	pool := deposit.Clone()
	_ = pool.Add(gQ("otherDeposits")) // the pool holds at least this proposal's deposit
	_ = total.Add(pool)
	common := gQ("commonPool")
	_ = total.Add(common)
	gMust(st.SetGovernanceDeposits(ctx, pool), "SetGovernanceDeposits")
	gMust(st.SetCommonPool(ctx, common), "SetCommonPool")
	gMust(st.SetTotalSupply(ctx, total), "SetTotalSupply")

	prop := &governance.Proposal{
		ID:        1,
		Submitter: aAddr,
		State:     governance.StateActive,
		Deposit:   *deposit,
		Content:   governance.ProposalContent{CancelUpgrade: &governance.CancelUpgradeProposal{ProposalID: 99}},
		CreatedAt: gEpoch - 2,
		ClosesAt:  gEpoch,
	}
	gMust(gs.SetProposal(ctx, prop), "SetProposal")
	gMust(gs.SetActiveProposal(ctx, prop), "SetActiveProposal")
	gMust(gs.SetNextProposalIdentifier(ctx, 2), "SetNextProposalIdentifier")
	for i, voter := range []staking.Address{vAddr, dAddr} {
		if v := symx.Choose(symx.N("vote", i), 4); v > 0 {
			gMust(gs.SetVote(ctx, prop.ID, voter, governance.Vote(v)), "SetVote")
		}
	}

	_, err := app.EndBlock(ctx)
	symx.Assert(err == nil, "governance EndBlock failed (would halt the chain)")

	closed, perr := gs.Proposal(ctx, prop.ID)
	gMust(perr, "Proposal")
	act, aerr := gs.ActiveProposals(ctx)
	gMust(aerr, "ActiveProposals")
	symx.Assert(len(act) == 0, "closed proposal still active")
	poolAfter, _ := st.GovernanceDeposits(ctx)
	wantPool := pool.Clone()
	symx.Assert(wantPool.Sub(deposit) == nil && poolAfter.Cmp(wantPool) == 0, "governance deposits pool did not fall by exactly the proposal's deposit")
	aAfter, _ := st.Account(ctx, aAddr)
	commonAfter, _ := st.CommonPool(ctx)
	wantA, wantCommon := aAcct.General.Balance.Clone(), common.Clone()
	switch closed.State {
	case governance.StateRejected:
		_ = wantCommon.Add(deposit)
		symx.Cover("rejected")
	case governance.StatePassed, governance.StateFailed:
		_ = wantA.Add(deposit)
		symx.Cover("returned")
	default:
		symx.Assert(false, "closed proposal in an unexpected state")
	}
	symx.Assert(aAfter.General.Balance.Cmp(wantA) == 0, "submitter balance wrong after the proposal closed")
	symx.Assert(commonAfter.Cmp(wantCommon) == 0, "common pool wrong after the proposal closed")
	ts, _ := st.TotalSupply(ctx)
	symx.Assert(ts.Cmp(total) == 0, "total supply changed")
}
