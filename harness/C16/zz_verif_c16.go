package node

// C16 (hand-written decoders of serialized tree nodes): arbitrary bytes are
// decoded or rejected, never panic; accepted encodings round-trip.

import (
	"bytes"

	symx "github.com/oasisprotocol/oasis-core/go/internal/verifsymx"
)

// VerifC16Node: node.UnmarshalBinary on an arbitrary buffer of symbolic length 0..N.
func VerifC16Node() {
	N := symx.Cfg("N", 12)
	n := symx.Choose("len", N+1)
	if fixed := symx.Cfg("fixedlen", -1); fixed >= 0 {
		n = fixed
	}
	data := symx.Bytes("d", n)
	if symx.Cfg("small", 0) == 1 && n >= 8 {
		// long buffers: restrict the length fields (label <= 16 bits; embedded leaf key <= 2 bytes)
		// so that the remaining bytes (hashes, values) stay arbitrary without enumerating every split point
		symx.Assume(data[2] == 0 && data[1] <= 16)
		symx.Assume(data[0] != PrefixLeafNode || (data[1] <= 2 && data[2] == 0))
	}
	nd, err := UnmarshalBinary(data) // any panic here is reported by the engine as a violation
	if err != nil {
		symx.Cover("rejected")
		return
	}
	symx.Cover("accepted")
	// subsequent processing of an accepted node must be safe
	_ = nd.Size()
	_ = nd.GetHash()
	symx.Assert(nd.Equal(nd), "decoded node is not equal to itself")
	symx.Assert(nd.IsClean(), "decoded node is not clean")
	_ = nd.Extract()
	_, _ = nd.CompactMarshalBinaryV0()
	_, _ = nd.CompactMarshalBinaryV1()
	// canonical form: re-encoding reproduces the bytes that were consumed
	enc, err := nd.MarshalBinary()
	symx.Assert(err == nil, "MarshalBinary of a decoded node failed")
	switch x := nd.(type) {
	case *LeafNode:
		symx.Cover("leaf")
		symx.Assert(len(enc) <= len(data) && bytes.Equal(enc, data[:len(enc)]), "leaf re-encoding differs from the accepted bytes")
		var again LeafNode
		symx.Assert(again.UnmarshalBinary(enc) == nil && again.Equal(x), "leaf does not round-trip")
	case *InternalNode:
		symx.Cover("internal")
		if x.Left != nil || x.Right != nil || len(enc) <= len(data) {
			// full (non-compact) form was given, or compact form without children
			var again InternalNode
			symx.Assert(again.UnmarshalBinary(enc) == nil, "internal node re-encoding is rejected")
			symx.Assert(again.LabelBitLength == x.LabelBitLength && bytes.Equal(again.Label, x.Label), "internal node label does not round-trip")
		}
	}
}

// VerifC16Key: Key and Depth decoders.
func VerifC16Key() {
	N := symx.Cfg("N", 6)
	n := symx.Choose("len", N+1)
	data := symx.Bytes("d", n)
	var k Key
	sz, err := k.SizedUnmarshalBinary(data)
	if err == nil {
		symx.Cover("key-accepted")
		symx.Assert(sz >= DepthSize && sz <= len(data), "key decoder reports a size outside the buffer")
		enc, _ := k.MarshalBinary()
		symx.Assert(bytes.Equal(enc, data[:sz]), "key re-encoding differs from the accepted bytes")
	} else {
		symx.Cover("key-rejected")
	}
	var d Depth
	if _, err := d.UnmarshalBinary(data); err == nil {
		symx.Cover("depth-accepted")
		symx.Assert(bytes.Equal(d.MarshalBinary(), data[:DepthSize]), "depth does not round-trip")
		_ = d.ToBytes()
	}
}
