package api

// C15 harnesses: the real SharePool arithmetic over unbounded integers.

import (
	"github.com/oasisprotocol/oasis-core/go/common/quantity"
	symx "github.com/oasisprotocol/oasis-core/go/internal/verifsymx"
)

func c15Q(name string) *quantity.Quantity {
	q := quantity.NewQuantity()
	if err := q.FromBigInt(symx.Nat(name)); err != nil {
		symx.Unreachable("non-negative integer rejected by FromBigInt")
	}
	return q
}

func c15Pool() *SharePool {
	var p SharePool
	p.Balance = *c15Q("B")
	p.TotalShares = *c15Q("S")
	// the repository's own sanity invariant (staking/api/sanity_check.go):
	// a pool without shares holds no balance
	symx.Assume(!p.TotalShares.IsZero() || p.Balance.IsZero())
	return &p
}

// c15Inv asserts that the sanity invariant is preserved (inductive step).
func c15Inv(p *SharePool) {
	symx.Assert(!p.TotalShares.IsZero() || p.Balance.IsZero(), "pool left with balance but no shares")
}

// le reports a*b <= c*d over quantities.
func c15MulLe(a, b, c, d *quantity.Quantity) bool {
	l := a.Clone()
	_ = l.Mul(b)
	r := c.Clone()
	_ = r.Mul(d)
	return l.Cmp(r) <= 0
}

// VerifC15Deposit: a deposit mints at most the pro-rata number of shares, is
// worth at most what was paid, and never lowers another holder's value.
func VerifC15Deposit() {
	p := c15Pool()
	B, S := p.Balance.Clone(), p.TotalShares.Clone()
	x := c15Q("x") // another holder's shares
	symx.Assume(x.Cmp(S) <= 0)
	a := c15Q("a")
	src := c15Q("src")
	dst := c15Q("dst")
	src0, dst0 := src.Clone(), dst.Clone()
	before, err := p.StakeForShares(x)
	symx.Assert(err == nil, "StakeForShares failed")

	shares, err := p.Deposit(dst, src, a)
	if err != nil {
		symx.Cover("deposit-rejected")
		// rejected deposits happen only for lack of funds or for a zero-balance pool with shares
		symx.Assert(src0.Cmp(a) < 0 || (!S.IsZero() && B.IsZero()), "deposit rejected without reason")
		return
	}
	symx.Cover("deposit-ok")
	// bookkeeping
	wantB := B.Clone()
	_ = wantB.Add(a)
	symx.Assert(p.Balance.Cmp(wantB) == 0, "pool balance != old balance + amount")
	wantS := S.Clone()
	_ = wantS.Add(shares)
	symx.Assert(p.TotalShares.Cmp(wantS) == 0, "total shares != old total + minted")
	wantSrc := src0.Clone()
	symx.Assert(wantSrc.Sub(a) == nil && src.Cmp(wantSrc) == 0, "source not debited by exactly the amount")
	wantDst := dst0.Clone()
	_ = wantDst.Add(shares)
	symx.Assert(dst.Cmp(wantDst) == 0, "share destination not credited by exactly the minted shares")
	// pro rata: shares*B <= a*S (or 1:1 into an empty pool)
	if S.IsZero() {
		symx.Assert(shares.Cmp(a) == 0, "first deposit is not 1:1")
	} else {
		symx.Assert(c15MulLe(shares, B, a, S), "minted more than the pro-rata number of shares")
	}
	// the depositor cannot redeem more than was put in
	worth, err := p.StakeForShares(shares)
	symx.Assert(err == nil, "StakeForShares failed")
	symx.Assert(worth.Cmp(a) <= 0, "minted shares are worth more than the deposit")
	// ... and shares are proportional claims in the other direction too: what the depositor can redeem falls
	// short of the deposit only by rounding (less than one share's price plus one base unit):
	// (worth+1)*S' + B > a*S' with S' the new share total and B the old balance
	if !a.IsZero() {
		l := worth.Clone()
		_ = l.Add(quantity.NewFromUint64(1))
		_ = l.Mul(&p.TotalShares)
		_ = l.Add(B)
		r := a.Clone()
		_ = r.Mul(&p.TotalShares)
		symx.Assert(l.Cmp(r) > 0, "an accepted deposit is worth less to the depositor than the deposit minus rounding")
	}
	// the other holder is not diluted
	after, err := p.StakeForShares(x)
	symx.Assert(err == nil, "StakeForShares failed")
	symx.Assert(after.Cmp(before) >= 0, "another holder's redeemable value fell on deposit")
	c15Inv(p)
}

// VerifC15Withdraw: a redemption pays at most the pro-rata worth and never
// lowers another holder's value.
func VerifC15Withdraw() {
	p := c15Pool()
	B, S := p.Balance.Clone(), p.TotalShares.Clone()
	k := c15Q("k")       // shares redeemed
	own := c15Q("own")   // redeemer's share balance
	x := c15Q("x")       // another holder's shares
	symx.Assume(own.Cmp(S) <= 0)
	// x and own are distinct holdings inside the pool: x + own <= S
	sum := x.Clone()
	_ = sum.Add(own)
	symx.Assume(sum.Cmp(S) <= 0)
	dst := c15Q("dst")
	dst0, own0 := dst.Clone(), own.Clone()
	before, _ := p.StakeForShares(x)

	err := p.Withdraw(dst, own, k)
	if err != nil {
		symx.Cover("withdraw-rejected")
		symx.Assert(own0.Cmp(k) < 0, "withdraw rejected although the holder owns the shares")
		return
	}
	symx.Cover("withdraw-ok")
	paid := dst.Clone()
	symx.Assert(paid.Sub(dst0) == nil, "destination decreased")
	// pays at most pro rata: paid*S <= k*B
	symx.Assert(c15MulLe(paid, S, k, B), "redemption paid more than the pro-rata worth")
	wantB := B.Clone()
	symx.Assert(wantB.Sub(paid) == nil && p.Balance.Cmp(wantB) == 0, "pool balance != old balance - paid")
	wantS := S.Clone()
	symx.Assert(wantS.Sub(k) == nil && p.TotalShares.Cmp(wantS) == 0, "total shares != old total - redeemed")
	wantOwn := own0.Clone()
	symx.Assert(wantOwn.Sub(k) == nil && own.Cmp(wantOwn) == 0, "share source not debited by exactly the redeemed shares")
	after, _ := p.StakeForShares(x)
	symx.Assert(after.Cmp(before) >= 0, "another holder's redeemable value fell on redemption")
	c15Inv(p)
}

// VerifC15RoundTrip: depositing and immediately redeeming the minted shares
// never returns more than was deposited.
func VerifC15RoundTrip() {
	p := c15Pool()
	a := c15Q("a")
	src := a.Clone()
	dstShares := quantity.NewQuantity()
	shares, err := p.Deposit(dstShares, src, a)
	if err != nil {
		symx.Cover("deposit-rejected")
		return
	}
	back := quantity.NewQuantity()
	err = p.Withdraw(back, dstShares, shares)
	symx.Assert(err == nil, "redeeming freshly minted shares failed")
	symx.Assert(back.Cmp(a) <= 0, "round trip returned more than was deposited")
	symx.Cover("roundtrip-ok")
}

// VerifC15Sequence: one account performs n deposit / redeem steps against an
// arbitrary pool whose other holders stay passive; at no point can it have
// taken out, or be able to take out, more than it put in.
func VerifC15Sequence() {
	p := c15Pool()
	in, out, sh := quantity.NewQuantity(), quantity.NewQuantity(), quantity.NewQuantity()
	n := symx.Cfg("n", 2)
	for i := 0; i < n; i++ {
		if symx.Choose(symx.N("kind", i), 2) == 0 {
			a := c15Q(symx.N("a", i))
			src := a.Clone()
			if _, err := p.Deposit(sh, src, a); err == nil {
				_ = in.Add(a)
			}
		} else {
			k := c15Q(symx.N("k", i))
			symx.Assume(k.Cmp(sh) <= 0)
			if err := p.Withdraw(out, sh, k); err != nil {
				symx.Unreachable("withdraw of owned shares failed")
			}
		}
		worth, _ := p.StakeForShares(sh)
		tot := out.Clone()
		_ = tot.Add(worth)
		symx.Assert(tot.Cmp(in) <= 0, "an account can take out more than it put in")
		c15Inv(p)
	}
	symx.Cover("end")
}
