export GOFLAGS=-mod=mod GOPROXY=off GOSUMDB=off GOTOOLCHAIN=local PATH=/opt/veriftools/go1.26.8/bin:$PATH
