package main

import (
	"go/token"
	"go/types"
	"os"
	"path/filepath"

	"golang.org/x/tools/go/ssa"
)

var moreRegs []func(eng *Engine)

var anyType = types.Universe.Lookup("any").Type()
var byteType = types.Typ[types.Uint8]

func registerMoreIntrinsics(eng *Engine) {
	for _, f := range moreRegs {
		f(eng)
	}
	in := eng.intrinsics
	in["internal/bytealg.MakeNoZero"] = func(w *Worker, fr *frame, fn *ssa.Function, args []value) value {
		n := int(args[0].(uint64))
		r := make([]value, n)
		for i := range r {
			r[i] = uint64(0)
		}
		return r
	}
}

func init() {
	moreRegs = append(moreRegs, func(eng *Engine) {
		in := eng.intrinsics
		in["github.com/oasisprotocol/oasis-core/go/common/crypto/signature.HashToPublicKey"] = func(w *Worker, fr *frame, fn *ssa.Function, args []value) value {
			// hash-to-curve modelled as a tagged hash (only distinctness of the result is relied on)
			data := append([]value{uint64('h'), uint64('2'), uint64('c'), uint64(len(args[0].([]value)))}, args[0].([]value)...)
			data = append(data, args[1].([]value)...)
			return array(w.hashBytes("sha512_256", data))
		}
		in["runtime.Version"] = func(w *Worker, fr *frame, fn *ssa.Function, args []value) value { return "go1.26.8" }
		// sync.Map: an ordered association list kept in field 0 of the struct
		smap := func(w *Worker, p value) *omap {
			s := (*(p.(*value))).(structure)
			if m, ok := s[0].(*omap); ok && m != nil {
				return m
			}
			m := newOmap(anyType)
			w.set(&s[0], m)
			return m
		}
		in["(*sync.Map).Load"] = func(w *Worker, fr *frame, fn *ssa.Function, args []value) value {
			m := smap(w, args[0])
			if i := w.mapFind(m, args[1]); i >= 0 {
				return tuple{m.ents[i].val, true}
			}
			return tuple{iface{}, false}
		}
		in["(*sync.Map).Store"] = func(w *Worker, fr *frame, fn *ssa.Function, args []value) value {
			w.mapInsert(smap(w, args[0]), args[1], args[2])
			return nil
		}
		in["(*sync.Map).LoadOrStore"] = func(w *Worker, fr *frame, fn *ssa.Function, args []value) value {
			m := smap(w, args[0])
			if i := w.mapFind(m, args[1]); i >= 0 {
				return tuple{m.ents[i].val, true}
			}
			w.mapInsert(m, args[1], args[2])
			return tuple{args[2], false}
		}
		in["(*sync.Map).LoadAndDelete"] = func(w *Worker, fr *frame, fn *ssa.Function, args []value) value {
			m := smap(w, args[0])
			if i := w.mapFind(m, args[1]); i >= 0 {
				v := m.ents[i].val
				w.mapDelete(m, args[1])
				return tuple{v, true}
			}
			return tuple{iface{}, false}
		}
		in["(*sync.Map).Delete"] = func(w *Worker, fr *frame, fn *ssa.Function, args []value) value {
			w.mapDelete(smap(w, args[0]), args[1])
			return nil
		}
		in["(*sync.Map).Range"] = func(w *Worker, fr *frame, fn *ssa.Function, args []value) value {
			m := smap(w, args[0])
			for _, e := range append([]*mentry{}, m.ents...) {
				r := w.call(fr, 0, args[1], []value{e.key, e.val})
				if !w.truth(r, "sync.Map.Range") {
					break
				}
			}
			return nil
		}
		// substring search (assembly-backed in the standard library)
		index := func(w *Worker, s, sep []value) value {
			n := len(sep)
			for i := 0; i+n <= len(s); i++ {
				if w.truth(w.bytesEq(s[i:i+n], sep), "Index") {
					return uint64(i)
				}
			}
			return ^uint64(0)
		}
		in["strings.Index"] = func(w *Worker, fr *frame, fn *ssa.Function, args []value) value {
			return index(w, strBytes(args[0]), strBytes(args[1]))
		}
		in["internal/stringslite.Index"] = in["strings.Index"]
		in["bytes.Index"] = func(w *Worker, fr *frame, fn *ssa.Function, args []value) value {
			return index(w, args[0].([]value), args[1].([]value))
		}
		count := func(w *Worker, s []value, c value) value {
			n := uint64(0)
			for _, b := range s {
				if w.truth(w.equals(byteType, b, c), "Count") {
					n++
				}
			}
			return n
		}
		in["internal/bytealg.CountString"] = func(w *Worker, fr *frame, fn *ssa.Function, args []value) value {
			return count(w, strBytes(args[0]), args[1])
		}
		in["internal/bytealg.Count"] = func(w *Worker, fr *frame, fn *ssa.Function, args []value) value {
			return count(w, args[0].([]value), args[1])
		}
		in["github.com/oasisprotocol/oasis-core/go/oasis-node/cmd/common/flags.DebugDontBlameOasis"] = func(w *Worker, fr *frame, fn *ssa.Function, args []value) value {
			return false
		}
	})
}

// math/bits kernels on symbolic operands (the library versions index lookup tables).
func init() {
	moreRegs = append(moreRegs, func(eng *Engine) {
		in := eng.intrinsics
		lenOf := func(w *Worker, v value, bw int) value {
			switch x := v.(type) {
			case uint64:
				n := 0
				for x != 0 {
					n++
					x >>= 1
				}
				return uint64(n)
			case *Term:
				acc := w.tc.BVConst(64, 0)
				for i := 0; i < bw; i++ {
					ge := w.tc.BvCmp(OBvUle, w.tc.BVConst(bw, uint64(1)<<uint(i)), x)
					acc = w.tc.Ite(ge, w.tc.BVConst(64, uint64(i+1)), acc)
				}
				return simp(acc)
			}
			panic("bits.Len operand")
		}
		tz := func(w *Worker, v value, bw int) value {
			switch x := v.(type) {
			case uint64:
				if x == 0 {
					return uint64(bw)
				}
				n := 0
				for x&1 == 0 {
					n++
					x >>= 1
				}
				return uint64(n)
			case *Term:
				acc := w.tc.BVConst(64, uint64(bw))
				for i := bw - 1; i >= 0; i-- {
					bit := w.tc.Eq(w.tc.Extract(x, i, i), w.tc.BVConst(1, 1))
					acc = w.tc.Ite(bit, w.tc.BVConst(64, uint64(i)), acc)
				}
				return simp(acc)
			}
			panic("bits.TrailingZeros operand")
		}
		for _, sfx := range []struct {
			name string
			bw   int
		}{{"8", 8}, {"16", 16}, {"32", 32}, {"64", 64}, {"", 64}} {
			bw := sfx.bw
			in["math/bits.Len"+sfx.name] = func(w *Worker, fr *frame, fn *ssa.Function, args []value) value {
				return lenOf(w, args[0], bw)
			}
			in["math/bits.LeadingZeros"+sfx.name] = func(w *Worker, fr *frame, fn *ssa.Function, args []value) value {
				l := lenOf(w, args[0], bw)
				return w.intBinop(token.SUB, 64, true, types.Typ[types.Int], uint64(bw), l)
			}
			in["math/bits.TrailingZeros"+sfx.name] = func(w *Worker, fr *frame, fn *ssa.Function, args []value) value {
				return tz(w, args[0], bw)
			}
		}
	})
}

func init() {
	moreRegs = append(moreRegs, func(eng *Engine) {
		in := eng.intrinsics
		in["context.WithValue"] = func(w *Worker, fr *frame, fn *ssa.Function, args []value) value {
			// the library version only adds reflection-based sanity checks on the key
			cp := w.eng.prog.ImportedPackage("context")
			t := cp.Type("valueCtx").Type()
			cell := new(value)
			*cell = structure{args[0], args[1], args[2]}
			return iface{t: types.NewPointer(t), v: cell}
		}
	})
}

func init() {
	moreRegs = append(moreRegs, func(eng *Engine) {
		in := eng.intrinsics
		// text encodings of symbolic data are opaque (only used for event attributes and log text)
		opaqueIfSym := func(label string) intrinsicFn {
			return func(w *Worker, fr *frame, fn *ssa.Function, args []value) value {
				for _, a := range args[1:] {
					if b, ok := a.([]value); ok {
						for _, x := range b {
							if _, c := x.(uint64); !c {
								return "<" + label + " of symbolic data>"
							}
						}
					}
				}
				return w.callBody(fr, fn, args)
			}
		}
		in["(*encoding/base64.Encoding).EncodeToString"] = opaqueIfSym("base64")
		in["encoding/hex.EncodeToString"] = func(w *Worker, fr *frame, fn *ssa.Function, args []value) value {
			for _, x := range args[0].([]value) {
				if _, c := x.(uint64); !c {
					return "<hex of symbolic data>"
				}
			}
			return w.callBody(fr, fn, args)
		}
	})
}

// errgroup: tasks run to completion at spawn (sequential model of independent tasks).
func init() {
	moreRegs = append(moreRegs, func(eng *Engine) {
		in := eng.intrinsics
		in["golang.org/x/sync/errgroup.WithContext"] = func(w *Worker, fr *frame, fn *ssa.Function, args []value) value {
			t := deref(fn.Signature.Results().At(0).Type())
			cell := new(value)
			*cell = zero(t)
			return tuple{cell, args[0]}
		}
		in["(*golang.org/x/sync/errgroup.Group).Go"] = func(w *Worker, fr *frame, fn *ssa.Function, args []value) value {
			w.goSpawns++
			s := (*(args[0].(*value))).(structure)
			r := w.call(fr, 0, args[1], nil)
			if e, ok := r.(iface); ok && e.t != nil {
				// remember the first error in field 0 (engine-side use of the struct)
				if _, has := s[0].(iface); !has {
					w.set(&s[0], e)
				}
			}
			return nil
		}
		in["(*golang.org/x/sync/errgroup.Group).Wait"] = func(w *Worker, fr *frame, fn *ssa.Function, args []value) value {
			s := (*(args[0].(*value))).(structure)
			if e, ok := s[0].(iface); ok {
				return e
			}
			return iface{}
		}
		in["(*golang.org/x/sync/errgroup.Group).SetLimit"] = func(w *Worker, fr *frame, fn *ssa.Function, args []value) value { return nil }
	})
}

// time.Time comparisons / differences on symbolic instants. Only times without
// a monotonic clock reading are modelled (wall = nanoseconds, ext = seconds since
// year 1): that is what time.Unix and time.Parse produce. Differences are
// computed over mathematical integers (no 64-bit division by 10^9 in the solver).
func init() {
	moreRegs = append(moreRegs, func(eng *Engine) {
		in := eng.intrinsics
		parts := func(w *Worker, v value) (sec, nsec *Term, ok bool) {
			s, isS := v.(structure)
			if !isS || len(s) < 2 {
				return nil, nil, false
			}
			_, symWall := s[0].(*Term)
			_, symExt := s[1].(*Term)
			if !symWall && !symExt {
				return nil, nil, false // concrete: interpret the real code
			}
			if wc, okc := s[0].(uint64); okc {
				if wc>>63 != 0 {
					unsupported("symbolic time with monotonic clock reading")
				}
				nsec = w.tc.IntConst64(int64(wc & (1<<30 - 1)))
			} else {
				unsupported("symbolic nanosecond field in time.Time")
			}
			sec = w.asIntTerm(s[1], 64, true)
			return sec, nsec, true
		}
		nanos := func(w *Worker, sec, nsec *Term) *Term {
			return w.tc.IntBin(OIntAdd, w.tc.IntBin(OIntMul, sec, w.tc.IntConst64(1000000000)), nsec)
		}
		cmp := func(op string) intrinsicFn {
			return func(w *Worker, fr *frame, fn *ssa.Function, args []value) value {
				ts, tn, ok1 := parts(w, args[0])
				us, un, ok2 := parts(w, args[1])
				if !ok1 && !ok2 {
					return w.callBody(fr, fn, args)
				}
				if !ok1 {
					ts, tn = partsConcrete(w, args[0])
				}
				if !ok2 {
					us, un = partsConcrete(w, args[1])
				}
				a, b := nanos(w, ts, tn), nanos(w, us, un)
				switch op {
				case "After":
					return simp(w.tc.IntCmp(OIntLt, b, a))
				case "Before":
					return simp(w.tc.IntCmp(OIntLt, a, b))
				default:
					return simp(w.tc.Eq(a, b))
				}
			}
		}
		in["(time.Time).After"] = cmp("After")
		in["(time.Time).Before"] = cmp("Before")
		in["(time.Time).Equal"] = cmp("Equal")
		in["(time.Time).Sub"] = func(w *Worker, fr *frame, fn *ssa.Function, args []value) value {
			ts, tn, ok1 := parts(w, args[0])
			us, un, ok2 := parts(w, args[1])
			if !ok1 && !ok2 {
				return w.callBody(fr, fn, args)
			}
			if !ok1 {
				ts, tn = partsConcrete(w, args[0])
			}
			if !ok2 {
				us, un = partsConcrete(w, args[1])
			}
			d := w.tc.IntBin(OIntSub, nanos(w, ts, tn), nanos(w, us, un))
			maxD, minD := w.tc.IntConst(maxI64), w.tc.IntConst(minI64)
			// saturating, as time.Time.Sub
			d = w.tc.Ite(w.tc.IntCmp(OIntLt, maxD, d), maxD, w.tc.Ite(w.tc.IntCmp(OIntLt, d, minD), minD, d))
			return simp(d) // Int-sorted int64 (Duration)
		}
	})
}

func partsConcrete(w *Worker, v value) (*Term, *Term) {
	s := v.(structure)
	wall, _ := s[0].(uint64)
	ext, _ := s[1].(uint64)
	if wall>>63 != 0 {
		unsupported("time with monotonic clock reading")
	}
	return w.tc.IntConst64(int64(ext)), w.tc.IntConst64(int64(wall & (1<<30 - 1)))
}

// os.ReadFile of a concrete path (test vectors under the package's testdata directory): relative paths are
// resolved against the directory of the package under test, as `go test` does for the native run.
func init() {
	moreRegs = append(moreRegs, func(eng *Engine) {
		eng.intrinsics["os.ReadFile"] = func(w *Worker, fr *frame, fn *ssa.Function, args []value) value {
			name, ok := args[0].(string)
			if !ok {
				unsupported("os.ReadFile: symbolic path")
			}
			if !filepath.IsAbs(name) {
				name = filepath.Join(w.eng.pkgDir, name)
			}
			b, err := os.ReadFile(name)
			if err != nil {
				return tuple{[]value(nil), w.mkError(err.Error())}
			}
			out := make([]value, len(b))
			for i, x := range b {
				out[i] = uint64(x)
			}
			return tuple{out, iface{}}
		}
	})
}

// runtime/debug.Stack (used only to decorate log messages in panic recovery paths): an empty trace.
func init() {
	moreRegs = append(moreRegs, func(eng *Engine) {
		eng.intrinsics["runtime/debug.Stack"] = func(w *Worker, fr *frame, fn *ssa.Function, args []value) value {
			return []value{}
		}
	})
}
