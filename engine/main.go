package main

import (
	"encoding/json"
	"flag"
	"fmt"
	"os"
	"path/filepath"
	"strconv"
	"strings"
	"time"
)

type multiFlag []string

func (m *multiFlag) String() string     { return strings.Join(*m, ",") }
func (m *multiFlag) Set(s string) error { *m = append(*m, s); return nil }

type RunOutput struct {
	Package     string           `json:"package"`
	LoadSec     float64          `json:"load_seconds"`
	Results     []*HarnessResult `json:"results"`
	InitNotes   []string         `json:"init_notes"`
	Solver      string           `json:"solver"`
	StepLimit   int              `json:"step_limit_per_path"`
	MaxPaths    int              `json:"max_paths_per_harness"`
	OverlayList []string         `json:"overlay_files"`
}

func main() {
	var ovs, harnesses, cfgs, redirs multiFlag
	dir := flag.String("dir", "/repo/go", "module directory")
	pkg := flag.String("pkg", "", "package pattern (relative to dir)")
	symxDir := flag.String("symx", "/verif/symx", "directory of the verifsymx package")
	flag.Var(&ovs, "ov", "overlay mapping virtual=real (repeatable)")
	flag.Var(&harnesses, "harness", "harness function name[:k=v;k=v] (repeatable)")
	flag.Var(&cfgs, "cfg", "k=v config applied to all harnesses")
	flag.Var(&redirs, "redirect", "qualified.Function=HarnessFunction: run the harness function instead (repeatable)")
	var initAllow multiFlag
	flag.Var(&initAllow, "init-allow", "additional package path prefix whose initialiser is run (repeatable)")
	workers := flag.Int("workers", 16, "parallel workers")
	maxPaths := flag.Int("max-paths", 20000, "path limit per harness")
	steps := flag.Int("steps", 2000000, "SSA instruction limit per path")
	samples := flag.Int("samples", 6, "path samples to keep per harness")
	out := flag.String("out", "", "result JSON file")
	solver := flag.String("solver", "z3", "solver binary")
	timeout := flag.Int("timeout", 20000, "solver timeout per query (ms)")
	trace := flag.Bool("trace", false, "trace function entries (use with -workers 1)")
	slog := flag.String("solver-log", "", "log SMT-LIB sent by worker 0 to this file")
	dump := flag.String("dump-queries", "", "directory for standalone .smt2 dumps of discharged assertions")
	verbose := flag.Bool("v", false, "print init notes")
	fixw := flag.String("witness", "", "run concretely on the inputs of this witness/replay JSON file")
	hashAx := flag.Bool("hash-axioms", false, "also assert pairwise hash injectivity axioms (default: equality rewriting only)")
	flag.Parse()

	overlay := map[string][]byte{}
	var ovList []string
	addOv := func(virtual, real string) {
		b, err := os.ReadFile(real)
		if err != nil {
			fmt.Fprintln(os.Stderr, "overlay:", err)
			os.Exit(3)
		}
		overlay[virtual] = b
		ovList = append(ovList, virtual+" <= "+real)
	}
	if *symxDir != "" {
		files, _ := filepath.Glob(filepath.Join(*symxDir, "*.go"))
		for _, f := range files {
			if strings.HasSuffix(f, "_test.go") {
				continue
			}
			addOv(filepath.Join(*dir, "internal/verifsymx", filepath.Base(f)), f)
		}
	}
	for _, o := range ovs {
		parts := strings.SplitN(o, "=", 2)
		if len(parts) != 2 {
			fmt.Fprintln(os.Stderr, "bad -ov", o)
			os.Exit(3)
		}
		addOv(parts[0], parts[1])
	}
	base := map[string]int64{}
	t0 := time.Now()
	eng, err := Load(*dir, *pkg, overlay)
	if err != nil {
		fmt.Fprintln(os.Stderr, "load failed:", err)
		os.Exit(3)
	}
	eng.stepLimit = *steps
	eng.solverBin = *solver
	eng.solverTimeoutMs = *timeout
	eng.solverLog = *slog
	eng.dumpQueries = *dump
	eng.hashAxioms = *hashAx
	eng.initAllow = append(eng.initAllow, initAllow...)
	for _, r := range redirs {
		if p := strings.SplitN(r, "=", 2); len(p) == 2 {
			eng.redirects[p[0]] = p[1]
		}
	}
	if *fixw != "" {
		b, err := os.ReadFile(*fixw)
		if err != nil {
			fmt.Fprintln(os.Stderr, err)
			os.Exit(3)
		}
		var doc struct {
			Witness map[string]string `json:"witness"`
		}
		if err := json.Unmarshal(b, &doc); err != nil {
			fmt.Fprintln(os.Stderr, err)
			os.Exit(3)
		}
		eng.fixedWitness = doc.Witness
		for k, v := range doc.Witness {
			if strings.HasPrefix(k, "cfg:") {
				n, _ := strconv.ParseInt(v, 10, 64)
				base[k[4:]] = n
			}
		}
	}
	if *dump != "" {
		os.MkdirAll(*dump, 0o755)
	}
	if *trace {
		eng.trace = true
		eng.traceOut = os.Stderr
	}
	ro := &RunOutput{Package: *pkg, LoadSec: time.Since(t0).Seconds(), Solver: *solver, StepLimit: *steps, MaxPaths: *maxPaths, OverlayList: ovList}
	fmt.Fprintf(os.Stderr, "loaded %s in %.1fs\n", *pkg, ro.LoadSec)
	parseCfg := func(into map[string]int64, s string) {
		for _, kv := range strings.FieldsFunc(s, func(r rune) bool { return r == ';' || r == ',' }) {
			p := strings.SplitN(kv, "=", 2)
			if len(p) == 2 {
				v, _ := strconv.ParseInt(p[1], 10, 64)
				into[p[0]] = v
			}
		}
	}
	for _, c := range cfgs {
		parseCfg(base, c)
	}
	exit := 0
	for _, h := range harnesses {
		name := h
		cfg := map[string]int64{}
		for k, v := range base {
			cfg[k] = v
		}
		if i := strings.Index(h, ":"); i >= 0 {
			name = h[:i]
			parseCfg(cfg, h[i+1:])
		}
		res := eng.Explore(name, cfg, *workers, *maxPaths, *samples)
		ro.Results = append(ro.Results, res)
		status := "PASS"
		if len(res.Violations) > 0 {
			status = "CEX"
			exit = 1
		} else if len(res.Inconclusive) > 0 {
			status = "INCONCLUSIVE"
			if exit == 0 {
				exit = 2
			}
		}
		fmt.Fprintf(os.Stderr, "%-14s %s cfg=%v paths=%d cut=%d forks=%d asserts=%d(+%d conc) sat/unsat/unk=%d/%d/%d solver=%.1fs wall=%.1fs\n",
			status, name, cfg, res.Paths, res.PathsAssumed, res.Decisions, res.Asserts, res.AssertsConc, res.Sat, res.Unsat, res.Unknown, res.SolverSec, res.WallSec)
		for _, m := range res.Inconclusive {
			fmt.Fprintf(os.Stderr, "    inconclusive: %s\n", firstLines(m, 30))
		}
		for _, v := range res.Violations {
			fmt.Fprintf(os.Stderr, "    violation: %s %q at %s covers=%v witness=%v\n", v.Kind, v.Label, v.Where, v.Covers, v.Witness)
		}
	}
	ro.InitNotes = eng.initNotes
	if *verbose {
		for _, n := range eng.initNotes {
			fmt.Fprintln(os.Stderr, "init note:", firstLines(n, 12))
		}
	}
	if *out != "" {
		b, _ := json.MarshalIndent(ro, "", " ")
		os.WriteFile(*out, b, 0o644)
	}
	for _, w := range eng.workers {
		w.sol.Close()
	}
	os.Exit(exit)
}

func firstLines(s string, n int) string {
	lines := strings.Split(s, "\n")
	if len(lines) > n {
		lines = lines[:n]
	}
	return strings.Join(lines, "\n        ")
}
