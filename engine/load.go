package main

import (
	"fmt"
	"go/types"
	"io"
	"os"
	"path/filepath"
	"runtime/debug"
	"strings"
	"sync"

	"golang.org/x/tools/go/packages"
	"golang.org/x/tools/go/ssa"
	"golang.org/x/tools/go/ssa/ssautil"
)

type intrinsicFn func(w *Worker, fr *frame, fn *ssa.Function, args []value) value

type Engine struct {
	prog       *ssa.Program
	harnessPkg *ssa.Package
	intrinsics map[string]intrinsicFn

	blockedPkgs map[string]bool
	stepLimit   int
	trackFuncs  bool
	trace       bool
	traceOut    io.Writer

	solverBin       string
	solverTimeoutMs int
	solverLog       string
	dumpQueries     string

	hashAxioms bool
	redirects  map[string]string
	pkgDir     string // directory of the package under test
	fixedWitness map[string]string
	bigIntType types.Type
	initAllow  []string
	initDeny   []string

	wmu     sync.Mutex
	workers map[int]*Worker

	initNotes   []string
	initNotesMu sync.Mutex
}

// Load loads pkgPath (relative to dir) with the given overlay files and builds SSA.
func Load(dir, pkgPath string, overlay map[string][]byte) (*Engine, error) {
	cfg := &packages.Config{
		Mode:    packages.LoadAllSyntax,
		Dir:     dir,
		Overlay: overlay,
		Env:     append(os.Environ(), "GOFLAGS=-mod=mod", "GOPROXY=off", "GOSUMDB=off", "GOTOOLCHAIN=local"),
	}
	pkgs, err := packages.Load(cfg, pkgPath)
	if err != nil {
		return nil, err
	}
	nerr := 0
	packages.Visit(pkgs, nil, func(p *packages.Package) {
		for _, e := range p.Errors {
			if nerr < 20 {
				fmt.Fprintf(os.Stderr, "load error: %s: %v\n", p.PkgPath, e)
			}
			nerr++
		}
	})
	if nerr > 0 {
		return nil, fmt.Errorf("%d package load errors", nerr)
	}
	if len(pkgs) != 1 {
		return nil, fmt.Errorf("expected 1 package, got %d", len(pkgs))
	}
	prog, spkgs := ssautil.AllPackages(pkgs, ssa.InstantiateGenerics|ssa.SanityCheckFunctions&0)
	prog.Build()
	eng := &Engine{prog: prog, harnessPkg: spkgs[0], intrinsics: map[string]intrinsicFn{}, blockedPkgs: map[string]bool{},
		pkgDir: filepath.Join(dir, pkgPath), redirects: map[string]string{}, stepLimit: 2_000_000, trackFuncs: true, solverBin: "z3", solverTimeoutMs: 20000, workers: map[int]*Worker{}}
	if bp := prog.ImportedPackage("math/big"); bp != nil {
		eng.bigIntType = bp.Type("Int").Type()
	}
	if rp := prog.ImportedPackage("runtime"); rp != nil {
		if t := rp.Type("errorString"); t != nil {
			runtimeErrorType = t.Type()
		}
	}
	eng.initAllow = []string{
		"github.com/oasisprotocol/oasis-core/",
		"github.com/tidwall/btree",
		"github.com/cometbft/cometbft/crypto/merkle",
		"github.com/cometbft/cometbft/crypto/tmhash",
	}
	eng.initDeny = []string{
		"runtime", "os", "syscall", "reflect", "unsafe", "net", "testing", "internal/", "crypto/", "log", "plugin",
		"os/", "net/", "runtime/", "math/big", "math/rand", "encoding/json", "encoding/gob", "encoding/xml", "encoding/asn1",
		"text/", "html/", "go/", "database/", "debug/", "embed", "expvar", "flag", "mime", "archive/", "compress/", "image", "regexp", "vendor/", "iter", "weak", "unique", "sync", "hash/crc32", "hash/maphash", "bufio", "path", "io/fs", "io/ioutil",
	}
	registerIntrinsics(eng)
	return eng, nil
}

func (eng *Engine) note(s string) {
	eng.initNotesMu.Lock()
	defer eng.initNotesMu.Unlock()
	for _, n := range eng.initNotes {
		if n == s {
			return
		}
	}
	eng.initNotes = append(eng.initNotes, s)
}

func (eng *Engine) initAllowed(path string) bool {
	for _, a := range eng.initAllow {
		if strings.HasPrefix(path, a) {
			return true
		}
	}
	first := path
	if i := strings.Index(path, "/"); i >= 0 {
		first = path[:i]
	}
	if strings.Contains(first, ".") {
		return false // third-party, not allow-listed
	}
	for _, d := range eng.initDeny {
		if strings.HasSuffix(d, "/") {
			if strings.HasPrefix(path, d) {
				return false
			}
		} else if path == d {
			return false
		}
	}
	return true
}

// runInit runs package initialisers (lenient mode) starting from the harness package.
func (w *Worker) runInit() {
	w.lenient = true
	defer func() { w.lenient = false }()
	w.sol.Push() // never used, keeps push/pop symmetric if something asserts
	defer w.sol.Pop()
	w.initPackage(w.eng.harnessPkg)
}

func (w *Worker) initPackage(pkg *ssa.Package) {
	if w.initialised[pkg] {
		return
	}
	w.initialised[pkg] = true
	// dependencies first (in import order)
	for _, imp := range pkg.Pkg.Imports() {
		if ip := w.eng.prog.Package(imp); ip != nil {
			w.initPackage(ip)
		}
	}
	path := pkg.Pkg.Path()
	if path == "internal/cpu" || path == "internal/bytealg" || path == "internal/goarch" || path == "internal/goos" {
		return // feature flags all false / generic code paths: zero values are a valid configuration
	}
	if !w.eng.initAllowed(path) {
		w.initFailed[pkg] = "init skipped (package not on the init allow-list)"
		return
	}
	initFn := pkg.Func("init")
	if initFn == nil {
		return
	}
	func() {
		defer func() {
			if r := recover(); r != nil {
				msg := ""
				switch r := r.(type) {
				case unsupportedErr:
					msg = r.msg
				case targetPanic:
					msg = "panic: " + toString(r.v) + " at " + r.where
				case pathEnd:
					msg = r.reason
				case enginePanic:
					msg = fmt.Sprintf("engine error: %v at %s", r.val, r.where)
					if os.Getenv("VERIF_DEBUG_INIT") != "" {
						msg += "\n" + r.stack
					}
				default:
					msg = fmt.Sprintf("engine error: %v", r)
					if os.Getenv("VERIF_DEBUG_INIT") != "" {
						msg += "\n" + string(debug.Stack())
					}
				}
				w.initFailed[pkg] = msg
				for _, m := range pkg.Members {
					if g, ok := m.(*ssa.Global); ok && !w.gWritten[g] && !strings.HasPrefix(g.Name(), "init$") {
						if cell, ok := w.globals[g]; ok {
							*cell = poisonFor(deref(g.Type()), "global "+g.String()+": "+msg)
						}
					}
				}
				if w.id == 0 {
					w.eng.note(fmt.Sprintf("init of %s incomplete: %s", path, msg))
				}
			}
		}()
		w.steps = 0
		w.callInitBody(initFn)
	}()
}

// callInitBody runs the package initializer but skips its calls to other
// packages' init functions (handled by initPackage).
func (w *Worker) callInitBody(fn *ssa.Function) {
	w.call(nil, 0, fn, nil)
}

func (w *Worker) globalAddr(g *ssa.Global) *value {
	if p, ok := w.globals[g]; ok {
		return p
	}
	cell := new(value)
	pkg := g.Pkg
	if pkg != nil && (!w.initialised[pkg] || w.initFailed[pkg] != "") && !strings.HasPrefix(g.Name(), "init$") {
		why := "never initialised"
		if m := w.initFailed[pkg]; m != "" {
			why = m
		}
		*cell = poisonFor(deref(g.Type()), "global "+g.String()+": "+why)
	} else {
		*cell = zero(deref(g.Type()))
	}
	w.globals[g] = cell
	return cell
}

// poisonFor builds a value of type t whose scalar leaves are poison, keeping
// aggregate shape so that address computations still work.
func poisonFor(t types.Type, why string) value {
	switch t := t.Underlying().(type) {
	case *types.Struct:
		s := make(structure, t.NumFields())
		for i := range s {
			s[i] = poisonFor(t.Field(i).Type(), why)
		}
		return s
	case *types.Array:
		if t.Len() > 4096 {
			return poison{why}
		}
		a := make(array, t.Len())
		for i := range a {
			a[i] = poisonFor(t.Elem(), why)
		}
		return a
	}
	return poison{why}
}

func findModuleRoot(dir string) string {
	for d := dir; d != "/"; d = filepath.Dir(d) {
		if _, err := os.Stat(filepath.Join(d, "go.mod")); err == nil {
			return d
		}
	}
	return dir
}
