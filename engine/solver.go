package main

// Incremental SMT solver bridge: one long-lived `z3 -in` per worker.

import (
	"bufio"
	"fmt"
	"io"
	"math/big"
	"os/exec"
	"strings"
	"time"
)

type Solver struct {
	cmd     *exec.Cmd
	in      io.WriteCloser
	out     *bufio.Reader
	defined map[int]bool    // term IDs defined in the solver
	ufDecl  map[string]bool // declared UFs
	tc      *TermCtx
	bin     string
	timeout int // ms per check

	// statistics
	NSat, NUnsat, NUnknown int
	SolveTime              time.Duration
	Errors                 []string
	log                    io.Writer
	depth                  int
}

func NewSolver(tc *TermCtx, bin string, timeoutMs int) (*Solver, error) {
	s := &Solver{tc: tc, bin: bin, timeout: timeoutMs}
	if err := s.start(); err != nil {
		return nil, err
	}
	return s, nil
}

func (s *Solver) start() error {
	args := []string{"-in"}
	if strings.Contains(s.bin, "cvc5") {
		args = []string{"--incremental", "--produce-models", "--lang=smt2"}
	}
	s.cmd = exec.Command(s.bin, args...)
	in, err := s.cmd.StdinPipe()
	if err != nil {
		return err
	}
	out, err := s.cmd.StdoutPipe()
	if err != nil {
		return err
	}
	s.cmd.Stderr = nil
	if err := s.cmd.Start(); err != nil {
		return err
	}
	s.in = in
	s.out = bufio.NewReaderSize(out, 1<<16)
	s.defined = map[int]bool{}
	s.ufDecl = map[string]bool{}
	s.depth = 0
	s.send("(set-option :global-declarations true)")
	s.send("(set-option :produce-models true)")
	if !strings.Contains(s.bin, "cvc5") {
		s.send(fmt.Sprintf("(set-option :timeout %d)", s.timeout))
	} else {
		s.send(fmt.Sprintf("(set-option :tlimit-per %d)", s.timeout))
	}
	return nil
}

func (s *Solver) Close() {
	if s.cmd != nil {
		s.in.Close()
		s.cmd.Process.Kill()
		s.cmd.Wait()
		s.cmd = nil
	}
}

// Restart kills the solver and forgets all definitions (terms stay valid).
func (s *Solver) Restart() error {
	s.Close()
	return s.start()
}

func (s *Solver) send(line string) {
	if s.log != nil {
		fmt.Fprintln(s.log, line)
	}
	io.WriteString(s.in, line)
	io.WriteString(s.in, "\n")
}

func (s *Solver) readLine() string {
	line, err := s.out.ReadString('\n')
	if err != nil {
		return "(error \"solver died: " + err.Error() + "\")"
	}
	return strings.TrimSpace(line)
}

// define makes sure t (and its sub-terms) are defined; returns a reference.
func (s *Solver) define(t *Term) string {
	switch t.Op {
	case OConst:
		return t.ref()
	}
	if s.defined[t.ID] {
		return t.ref()
	}
	// iterative post-order to avoid deep recursion
	type fr struct {
		t *Term
		i int
	}
	stack := []fr{{t, 0}}
	for len(stack) > 0 {
		top := &stack[len(stack)-1]
		if top.t.Op == OConst || s.defined[top.t.ID] {
			stack = stack[:len(stack)-1]
			continue
		}
		if top.i < len(top.t.Args) {
			a := top.t.Args[top.i]
			top.i++
			if a.Op != OConst && !s.defined[a.ID] {
				stack = append(stack, fr{a, 0})
			}
			continue
		}
		n := top.t
		stack = stack[:len(stack)-1]
		switch n.Op {
		case OVar:
			s.send(fmt.Sprintf("(declare-const |%s| %s)", n.Name, n.S))
		case OApply:
			if !s.ufDecl[n.Name] {
				s.send(s.tc.ufs[n.Name])
				s.ufDecl[n.Name] = true
			}
			s.send(fmt.Sprintf("(define-fun t%d () %s %s)", n.ID, n.S, n.body()))
		default:
			s.send(fmt.Sprintf("(define-fun t%d () %s %s)", n.ID, n.S, n.body()))
		}
		s.defined[n.ID] = true
	}
	return t.ref()
}

func (s *Solver) Push() {
	s.send("(push 1)")
	s.depth++
}

func (s *Solver) Pop() {
	s.send("(pop 1)")
	s.depth--
}

func (s *Solver) Assert(t *Term) {
	if t.IsConst() && t.Val == 1 {
		return
	}
	r := s.define(t)
	s.send("(assert " + r + ")")
}

type Result int

const (
	Sat Result = iota
	Unsat
	Unknown
)

func (r Result) String() string { return [...]string{"sat", "unsat", "unknown"}[r] }

func (s *Solver) Check() Result {
	start := time.Now()
	s.send("(check-sat)")
	var res Result
	for {
		line := s.readLine()
		if line == "" {
			continue
		}
		switch {
		case line == "sat":
			res = Sat
			s.NSat++
		case line == "unsat":
			res = Unsat
			s.NUnsat++
		case line == "unknown" || line == "timeout":
			res = Unknown
			s.NUnknown++
		case strings.HasPrefix(line, "(error"):
			s.Errors = append(s.Errors, line)
			if strings.Contains(line, "solver died") {
				res = Unknown
				s.NUnknown++
				break
			}
			continue
		default:
			// unexpected chatter; keep reading
			continue
		}
		break
	}
	s.SolveTime += time.Since(start)
	return res
}

// CheckWith checks satisfiability of the current assertions plus extra.
func (s *Solver) CheckWith(extra *Term) Result {
	if extra.IsConst() {
		if extra.Val == 0 {
			return Unsat
		}
		return s.Check()
	}
	s.Push()
	s.Assert(extra)
	r := s.Check()
	s.Pop()
	return r
}

// GetValues returns the model values of the given terms after a Sat check.
// Must be called while the satisfiable assertion set is still in place.
func (s *Solver) GetValues(ts []*Term) (map[*Term]*big.Int, error) {
	res := map[*Term]*big.Int{}
	if len(ts) == 0 {
		return res, nil
	}
	var sb strings.Builder
	sb.WriteString("(get-value (")
	for _, t := range ts {
		sb.WriteString(s.define(t))
		sb.WriteByte(' ')
	}
	sb.WriteString("))")
	s.send(sb.String())
	text, err := s.readSexp()
	if err != nil {
		return nil, err
	}
	if strings.HasPrefix(text, "(error") {
		s.Errors = append(s.Errors, text)
		return nil, fmt.Errorf("get-value: %s", text)
	}
	sx, _, err := parseSexp(text, 0)
	if err != nil {
		return nil, err
	}
	if len(sx.list) != len(ts) {
		return nil, fmt.Errorf("get-value: expected %d pairs, got %d: %s", len(ts), len(sx.list), text)
	}
	for i, p := range sx.list {
		if len(p.list) != 2 {
			return nil, fmt.Errorf("get-value: bad pair %s", text)
		}
		v, err := sexpValue(p.list[1])
		if err != nil {
			return nil, err
		}
		res[ts[i]] = v
	}
	return res, nil
}

// readSexp reads one balanced s-expression (possibly multi-line).
func (s *Solver) readSexp() (string, error) {
	var sb strings.Builder
	depth := 0
	started := false
	for {
		line, err := s.out.ReadString('\n')
		if err != nil {
			return "", err
		}
		inStr := false
		for _, ch := range line {
			if ch == '"' {
				inStr = !inStr
			}
			if inStr {
				continue
			}
			if ch == '(' {
				depth++
				started = true
			} else if ch == ')' {
				depth--
			}
		}
		sb.WriteString(line)
		if started && depth <= 0 {
			break
		}
		if !started && strings.TrimSpace(line) != "" {
			break
		}
	}
	return strings.TrimSpace(sb.String()), nil
}

type sexp struct {
	atom string
	list []*sexp
	isL  bool
}

func parseSexp(s string, i int) (*sexp, int, error) {
	for i < len(s) && (s[i] == ' ' || s[i] == '\n' || s[i] == '\t' || s[i] == '\r') {
		i++
	}
	if i >= len(s) {
		return nil, i, fmt.Errorf("unexpected end of s-expression")
	}
	if s[i] == '(' {
		i++
		n := &sexp{isL: true}
		for {
			for i < len(s) && (s[i] == ' ' || s[i] == '\n' || s[i] == '\t' || s[i] == '\r') {
				i++
			}
			if i >= len(s) {
				return nil, i, fmt.Errorf("unbalanced s-expression")
			}
			if s[i] == ')' {
				return n, i + 1, nil
			}
			c, j, err := parseSexp(s, i)
			if err != nil {
				return nil, j, err
			}
			n.list = append(n.list, c)
			i = j
		}
	}
	j := i
	if s[i] == '|' {
		j = i + 1
		for j < len(s) && s[j] != '|' {
			j++
		}
		j++
	} else {
		for j < len(s) && s[j] != ' ' && s[j] != ')' && s[j] != '(' && s[j] != '\n' {
			j++
		}
	}
	return &sexp{atom: s[i:j]}, j, nil
}

func sexpValue(x *sexp) (*big.Int, error) {
	if !x.isL {
		a := x.atom
		switch {
		case a == "true":
			return big.NewInt(1), nil
		case a == "false":
			return big.NewInt(0), nil
		case strings.HasPrefix(a, "#x"):
			v, ok := new(big.Int).SetString(a[2:], 16)
			if !ok {
				return nil, fmt.Errorf("bad hex %s", a)
			}
			return v, nil
		case strings.HasPrefix(a, "#b"):
			v, ok := new(big.Int).SetString(a[2:], 2)
			if !ok {
				return nil, fmt.Errorf("bad bin %s", a)
			}
			return v, nil
		default:
			v, ok := new(big.Int).SetString(a, 10)
			if !ok {
				return nil, fmt.Errorf("bad value atom %q", a)
			}
			return v, nil
		}
	}
	// (- n) or (_ bvN w)
	if len(x.list) == 2 && x.list[0].atom == "-" {
		v, err := sexpValue(x.list[1])
		if err != nil {
			return nil, err
		}
		return new(big.Int).Neg(v), nil
	}
	if len(x.list) == 3 && x.list[0].atom == "_" && strings.HasPrefix(x.list[1].atom, "bv") {
		v, ok := new(big.Int).SetString(x.list[1].atom[2:], 10)
		if !ok {
			return nil, fmt.Errorf("bad bv literal")
		}
		return v, nil
	}
	return nil, fmt.Errorf("unsupported model value")
}
