package main

// Model of oasis-core's common/cbor (fxamacker/cbor, reflection based, not
// interpretable): Marshal is an injective, type-directed serialisation of the
// interpreter value (NOT real CBOR bytes; only injectivity and the round trip
// are relied upon), and Unmarshal of a blob produced by Marshal copies the
// recorded value back. Unmarshal of any other bytes is unsupported.

import (
	"fmt"
	"go/types"
	"math/big"
	"sort"
	"strings"

	"golang.org/x/tools/go/ssa"
)

type cborRec struct {
	t types.Type
	v value
}

func (w *Worker) u64Bytes(v value, bw int, signed bool) []value {
	out := make([]value, 8)
	switch v := v.(type) {
	case uint64:
		x := v
		if signed {
			x = uint64(sext64(v, bw))
		}
		for i := 0; i < 8; i++ {
			out[i] = uint64(byte(x >> (56 - 8*uint(i))))
		}
	case *Term:
		if v.S.K == SInt {
			enc := w.tc.Apply("IntEnc64", BV(64), v)
			for i := 0; i < 8; i++ {
				out[i] = simp(w.tc.Extract(enc, 63-8*i, 56-8*i))
			}
			return out
		}
		t := v
		if signed {
			t = w.tc.Sext(v, 64)
		} else {
			t = w.tc.Zext(v, 64)
		}
		for i := 0; i < 8; i++ {
			out[i] = simp(w.tc.Extract(t, 63-8*i, 56-8*i))
		}
	default:
		unsupported("cbor model: integer of type %T", v)
	}
	return out
}

func (w *Worker) serialize(t types.Type, v value, out []value, depth int) []value {
	if depth > 40 {
		unsupported("cbor model: value too deep")
	}
	if p, ok := v.(poison); ok {
		unsupported("cbor model: poison value (%s)", p.why)
	}
	if w.eng.bigIntType != nil && types.Identical(t, w.eng.bigIntType) {
		s := v.(structure)
		switch b := s[0].(type) {
		case bool:
			return append(out, uint64(0xB0), uint64(0))
		case *big.Int:
			bs := b.Bytes()
			out = append(out, uint64(0xB0), uint64(len(bs)))
			if b.Sign() < 0 {
				out[len(out)-2] = uint64(0xB1)
			}
			for _, x := range bs {
				out = append(out, uint64(x))
			}
			return out
		case *Term:
			// symbolic integer: 32 bytes of an injective uninterpreted encoding BigEnc(x)
			// (the bytes are only ever compared / hashed, never decoded arithmetically)
			bv := w.tc.Apply("BigEnc", BV(256), b)
			out = append(out, uint64(0xB2))
			for i := 0; i < 32; i++ {
				out = append(out, simp(w.tc.Extract(bv, 255-8*i, 248-8*i)))
			}
			return out
		}
		unsupported("cbor model: big.Int content %T", s[0])
	}
	switch ut := t.Underlying().(type) {
	case *types.Basic:
		switch {
		case ut.Info()&types.IsBoolean != 0:
			switch b := v.(type) {
			case bool:
				if b {
					return append(out, uint64(1))
				}
				return append(out, uint64(0))
			case *Term:
				return append(out, simp(w.tc.Ite(b, w.tc.BVConst(8, 1), w.tc.BVConst(8, 0))))
			}
		case ut.Info()&types.IsInteger != 0:
			bw, signed, _ := intInfo(ut)
			return append(out, w.u64Bytes(v, bw, signed)...)
		case ut.Info()&types.IsString != 0:
			b := strBytes(v)
			out = append(out, w.u64Bytes(uint64(len(b)), 64, false)...)
			return append(out, b...)
		case ut.Info()&types.IsFloat != 0:
			return append(out, w.u64Bytes(uint64(int64(v.(float64)*1e6)), 64, false)...)
		}
	case *types.Array:
		a := v.(array)
		if bw, _, ok := intInfo(ut.Elem()); ok && bw == 8 {
			// byte arrays (hashes, keys) as their bytes: keeps the 32 extracts of a modelled digest adjacent,
			// which the hash-equality rewriting needs to recognise H(x) = H(y) inside a serialisation
			return append(out, a...)
		}
		for _, e := range a {
			out = w.serialize(ut.Elem(), e, out, depth+1)
		}
		return out
	case *types.Slice:
		s, _ := v.([]value)
		if s == nil {
			return append(out, uint64(0xF6))
		}
		out = append(out, uint64(0x80))
		out = append(out, w.u64Bytes(uint64(len(s)), 64, false)...)
		if bw, _, ok := intInfo(ut.Elem()); ok && bw == 8 {
			return append(out, s...)
		}
		for _, e := range s {
			out = w.serialize(ut.Elem(), e, out, depth+1)
		}
		return out
	case *types.Struct:
		s := v.(structure)
		for i := 0; i < ut.NumFields(); i++ {
			out = w.serialize(ut.Field(i).Type(), s[i], out, depth+1)
		}
		return out
	case *types.Pointer:
		p, _ := v.(*value)
		if p == nil {
			return append(out, uint64(0xF6))
		}
		out = append(out, uint64(0xC1))
		return w.serialize(ut.Elem(), *p, out, depth+1)
	case *types.Interface:
		it := v.(iface)
		if it.t == nil {
			return append(out, uint64(0xF6))
		}
		name := it.t.String()
		out = append(out, uint64(0xD0))
		out = append(out, w.u64Bytes(uint64(len(name)), 64, false)...)
		out = append(out, strBytes(name)...)
		return w.serialize(it.t, it.v, out, depth+1)
	case *types.Map:
		m, _ := v.(*omap)
		if m == nil {
			return append(out, uint64(0xF6))
		}
		out = append(out, uint64(0xA0))
		out = append(out, w.u64Bytes(uint64(len(m.ents)), 64, false)...)
		ents := append([]*mentry{}, m.ents...)
		if len(ents) > 1 {
			allConc := true
			for _, e := range ents {
				if _, ok := canonKey(e.key); !ok {
					allConc = false
				}
			}
			if allConc {
				sort.Slice(ents, func(i, j int) bool {
					ki, _ := canonKey(ents[i].key)
					kj, _ := canonKey(ents[j].key)
					return ki < kj
				})
			} else {
				// symbolic keys: canonical order = ascending serialised key, decided by forking on each
				// comparison (insertion sort; maps of a few entries)
				if len(ents) > 4 {
					unsupported("cbor model: map with symbolic keys and more than 4 entries")
				}
				ser := make([][]value, len(ents))
				for i, e := range ents {
					ser[i] = w.serialize(ut.Key(), e.key, nil, depth+1)
				}
				for i := 1; i < len(ents); i++ {
					for j := i; j > 0; j-- {
						c := w.bytesCompare(ser[j-1], ser[j])
						var greater bool
						switch cv := c.(type) {
						case uint64:
							greater = int64(cv) > 0
						case *Term:
							greater = w.decideBool(w.tc.BvCmp(OBvSlt, w.tc.BVConst(64, 0), cv), "cbor map key order")
						}
						if !greater {
							break
						}
						ents[j-1], ents[j] = ents[j], ents[j-1]
						ser[j-1], ser[j] = ser[j], ser[j-1]
					}
				}
			}
		}
		for _, e := range ents {
			out = w.serialize(ut.Key(), e.key, out, depth+1)
			out = w.serialize(ut.Elem(), e.val, out, depth+1)
		}
		return out
	}
	unsupported("cbor model: cannot serialise %s (%T)", t, v)
	return nil
}

var two256 = new(big.Int).Lsh(big.NewInt(1), 256)

// assumeRange256 restricts a symbolic integer that is being serialised to
// [0, 2^256). Stated as an assumption of every check that serialises symbolic
// quantities (token amounts are far below 2^256 base units).
func (w *Worker) assumeRange256(t *Term) {
	w.range256++
	w.assume(w.tc.And(w.tc.IntCmp(OIntLe, w.tc.IntConst64(0), t), w.tc.IntCmp(OIntLt, t, w.tc.IntConst(two256))))
}

// blobKey identifies a blob by content (concrete byte values / term identities),
// so copies of a marshalled blob are still recognised.
func blobKey(data []value) string {
	var sb strings.Builder
	for _, b := range data {
		switch x := b.(type) {
		case uint64:
			sb.WriteByte(byte(x))
			if x == 0xFF {
				sb.WriteByte(0)
			}
		case *Term:
			fmt.Fprintf(&sb, "\xff\x01%d;", x.ID)
		default:
			sb.WriteString("\xff\x02?")
		}
	}
	return sb.String()
}

func (w *Worker) cborMarshal(src iface) []value {
	if src.t == nil {
		b := []value{uint64(0xF6)}
		return b
	}
	// a non-nil pointer at the top level encodes as what it points to (as in real CBOR: Marshal(&x) == Marshal(x))
	if pt, ok := src.t.Underlying().(*types.Pointer); ok {
		if p, _ := src.v.(*value); p != nil {
			src = iface{t: pt.Elem(), v: *p}
		}
	}
	out := make([]value, 0, 64)
	out = append(out, uint64(0xD9))
	out = w.serialize(src.t, src.v, out, 0)
	// remember for Unmarshal (deep snapshot: the value may be mutated afterwards)
	rec := &cborRec{t: src.t, v: w.deepCopy(src.v, map[*value]*value{})}
	if w.cborBlobs == nil {
		w.cborBlobs = map[string]*cborRec{}
	}
	w.cborBlobs[blobKey(out)] = rec
	return out
}

// deepCopy clones a value graph (pointers are followed; aliasing inside the graph is preserved).
func (w *Worker) deepCopy(v value, memo map[*value]*value) value {
	switch v := v.(type) {
	case structure:
		a := make(structure, len(v))
		for i := range v {
			a[i] = w.deepCopy(v[i], memo)
		}
		return a
	case array:
		a := make(array, len(v))
		for i := range v {
			a[i] = w.deepCopy(v[i], memo)
		}
		return a
	case []value:
		if v == nil {
			return v
		}
		a := make([]value, len(v))
		for i := range v {
			a[i] = w.deepCopy(v[i], memo)
		}
		return a
	case *value:
		if v == nil {
			return v
		}
		if n, ok := memo[v]; ok {
			return n
		}
		n := new(value)
		memo[v] = n
		*n = w.deepCopy(*v, memo)
		return n
	case iface:
		if v.t == nil {
			return v
		}
		return iface{t: v.t, v: w.deepCopy(v.v, memo)}
	case *omap:
		if v == nil {
			return v
		}
		m := newOmap(v.keyType)
		for _, e := range v.ents {
			ne := &mentry{key: w.deepCopy(e.key, memo), val: w.deepCopy(e.val, memo)}
			m.ents = append(m.ents, ne)
			if ck, ok := canonKey(ne.key); ok {
				m.index[ck] = len(m.ents) - 1
			} else {
				m.nsym++
			}
		}
		return m
	}
	return v
}

func (w *Worker) cborUnmarshal(fr *frame, data []value, dst iface) value {
	if len(data) == 0 {
		return w.mkError("cbor model: empty input")
	}
	rec := w.cborBlobs[blobKey(data)]
	if rec == nil {
		unsupported("cbor.Unmarshal of bytes that were not produced by cbor.Marshal on this path (arbitrary-bytes decoding is outside the model)")
	}
	if dst.t == nil {
		return w.mkError("cbor model: nil destination")
	}
	pt, ok := dst.t.Underlying().(*types.Pointer)
	if !ok {
		return w.mkError("cbor model: destination is not a pointer")
	}
	p := dst.v.(*value)
	if p == nil {
		return w.mkError("cbor model: nil destination pointer")
	}
	val := w.deepCopy(rec.v, map[*value]*value{})
	switch {
	case types.Identical(pt.Elem(), rec.t):
		w.store(p, val)
	case isPtrTo(rec.t, pt.Elem()):
		// marshalled *T, unmarshalling into T
		src := val.(*value)
		if src == nil {
			w.store(p, zero(pt.Elem()))
		} else {
			w.store(p, *src)
		}
	case isPtrTo(pt.Elem(), rec.t):
		// marshalled T, unmarshalling into *T (allocates)
		cell := new(value)
		*cell = val
		w.store(p, cell)
	default:
		if _, isI := pt.Elem().Underlying().(*types.Interface); isI {
			unsupported("cbor model: Unmarshal into interface type %s", pt.Elem())
		}
		unsupported("cbor model: Unmarshal type mismatch: blob is %s, destination %s", rec.t, pt.Elem())
	}
	return iface{}
}

func isPtrTo(pt, elem types.Type) bool {
	p, ok := pt.Underlying().(*types.Pointer)
	return ok && types.Identical(p.Elem(), elem)
}

// mkError builds an errors.errorString value.
func (w *Worker) mkError(msg string) value {
	ep := w.eng.prog.ImportedPackage("errors")
	t := ep.Type("errorString").Type()
	cell := new(value)
	*cell = structure{msg}
	return iface{t: types.NewPointer(t), v: cell}
}

func init() {
	moreRegs = append(moreRegs, func(eng *Engine) {
		in := eng.intrinsics
		C := "github.com/oasisprotocol/oasis-core/go/common/cbor."
		in[C+"Marshal"] = func(w *Worker, fr *frame, fn *ssa.Function, args []value) value {
			return w.cborMarshal(args[0].(iface))
		}
		un := func(w *Worker, fr *frame, fn *ssa.Function, args []value) value {
			data, _ := args[0].([]value)
			return w.cborUnmarshal(fr, data, args[1].(iface))
		}
		in[C+"Unmarshal"] = un
		in[C+"UnmarshalTrusted"] = un
		in[C+"UnmarshalRPC"] = un
		in[C+"MustUnmarshal"] = func(w *Worker, fr *frame, fn *ssa.Function, args []value) value {
			data, _ := args[0].([]value)
			r := w.cborUnmarshal(fr, data, args[1].(iface))
			if r.(iface).t != nil {
				panic(targetPanic{v: r})
			}
			return nil
		}
	})
}

var _ = fmt.Sprint
