package main

// Path-exploring symbolic interpreter over go/ssa. Control flow, heap and
// aggregate shapes are concrete; scalars may be SMT terms. Structure adapted
// from golang.org/x/tools/go/ssa/interp (BSD-3-Clause, The Go Authors).

import (
	"fmt"
	"go/token"
	"go/types"
	"runtime/debug"
	"slices"
	"strings"

	"golang.org/x/tools/go/ssa"
)

type continuation int

const (
	kNext continuation = iota
	kReturn
	kJump
)

type deferred struct {
	fn    value
	args  []value
	instr *ssa.Defer
	tail  *deferred
}

type frame struct {
	w                *Worker
	caller           *frame
	fn               *ssa.Function
	block, prevBlock *ssa.BasicBlock
	env              map[ssa.Value]value
	locals           []value
	defers           *deferred
	result           value
	panicking        bool
	panic            any
	phitemps         []value
	cur              ssa.Instruction
}

// enginePanic wraps an unexpected Go panic inside the engine with the
// interpreted location at which it happened.
type enginePanic struct {
	val   any
	where string
	stack string
}

func (fr *frame) get(key ssa.Value) value {
	switch key := key.(type) {
	case nil:
		return nil
	case *ssa.Function, *ssa.Builtin:
		return key
	case *ssa.Const:
		return constValue(key)
	case *ssa.Global:
		return fr.w.globalAddr(key)
	}
	if r, ok := fr.env[key]; ok {
		return r
	}
	panic(fmt.Sprintf("get: no value for %T: %v in %s", key, key.Name(), fr.fn))
}

func (fr *frame) runDefer(d *deferred) {
	var ok bool
	defer func() {
		if !ok {
			r := recover()
			if _, isT := r.(targetPanic); !isT {
				panic(r)
			}
			fr.panicking = true
			fr.panic = r
		}
	}()
	fr.w.call(fr, d.instr.Pos(), d.fn, d.args)
	ok = true
}

func (fr *frame) runDefers() {
	for d := fr.defers; d != nil; d = d.tail {
		fr.runDefer(d)
	}
	fr.defers = nil
	if fr.panicking {
		panic(fr.panic)
	}
}

func (w *Worker) lookupMethod(typ types.Type, meth *types.Func) *ssa.Function {
	return w.eng.prog.LookupMethod(typ, meth.Pkg(), meth.Name())
}

func (w *Worker) posStr(p token.Pos) string {
	if p == token.NoPos {
		return "?"
	}
	ps := w.eng.prog.Fset.Position(p)
	return fmt.Sprintf("%s:%d", ps.Filename, ps.Line)
}

func (fr *frame) where(instr ssa.Instruction) string {
	return fr.fn.String() + " @ " + fr.w.posStr(instr.Pos())
}

func (w *Worker) nilDeref(fr *frame, instr ssa.Instruction) {
	panic(targetPanic{v: runtimeErr("invalid memory address or nil pointer dereference"), where: fr.where(instr)})
}

func (w *Worker) visitInstr(fr *frame, instr ssa.Instruction) continuation {
	w.steps++
	if w.steps > w.eng.stepLimit {
		panic(pathEnd{"step-limit"})
	}
	switch instr := instr.(type) {
	case *ssa.DebugRef:

	case *ssa.UnOp:
		x := fr.get(instr.X)
		if instr.Op == token.MUL {
			if p, ok := x.(*value); ok && p == nil {
				w.nilDeref(fr, instr)
			}
		}
		fr.env[instr] = w.unop(instr, x)

	case *ssa.BinOp:
		fr.env[instr] = w.binop(instr.Op, instr.X.Type(), instr.Y.Type(), fr.get(instr.X), fr.get(instr.Y))

	case *ssa.Call:
		fn, args := w.prepareCall(fr, &instr.Call, instr)
		fr.env[instr] = w.call(fr, instr.Pos(), fn, args)

	case *ssa.ChangeInterface:
		fr.env[instr] = fr.get(instr.X)

	case *ssa.ChangeType:
		fr.env[instr] = fr.get(instr.X)

	case *ssa.Convert:
		fr.env[instr] = w.conv(instr.Type(), instr.X.Type(), fr.get(instr.X))

	case *ssa.MultiConvert:
		fr.env[instr] = w.conv(instr.Type(), instr.X.Type(), fr.get(instr.X))

	case *ssa.SliceToArrayPointer:
		x := fr.get(instr.X).([]value)
		arr := deref(instr.Type()).Underlying().(*types.Array)
		if arr.Len() > int64(len(x)) {
			panic(targetPanic{v: runtimeErr("cannot convert slice to array pointer: length"), where: fr.where(instr)})
		}
		if x == nil {
			fr.env[instr] = (*value)(nil)
		} else {
			v := value(array(x[:arr.Len():arr.Len()]))
			fr.env[instr] = &v
		}

	case *ssa.MakeInterface:
		fr.env[instr] = iface{t: instr.X.Type(), v: fr.get(instr.X)}

	case *ssa.Extract:
		tv := fr.get(instr.Tuple)
		if p, ok := tv.(poison); ok {
			fr.env[instr] = p
		} else {
			fr.env[instr] = tv.(tuple)[instr.Index]
		}

	case *ssa.Slice:
		fr.env[instr] = w.slice(fr, instr, fr.get(instr.X), fr.get(instr.Low), fr.get(instr.High), fr.get(instr.Max))

	case *ssa.Return:
		switch len(instr.Results) {
		case 0:
		case 1:
			fr.result = fr.get(instr.Results[0])
		default:
			var res []value
			for _, r := range instr.Results {
				res = append(res, fr.get(r))
			}
			fr.result = tuple(res)
		}
		fr.block = nil
		return kReturn

	case *ssa.RunDefers:
		fr.runDefers()

	case *ssa.Panic:
		panic(targetPanic{v: fr.get(instr.X), where: fr.where(instr)})

	case *ssa.Send:
		ch, _ := fr.get(instr.Chan).(*chanv)
		if ch == nil {
			unsupported("send on nil channel")
		}
		if ch.closed {
			panic(targetPanic{v: runtimeErr("send on closed channel"), where: fr.where(instr)})
		}
		if len(ch.buf) >= ch.cap {
			unsupported("blocking channel send at %s", fr.where(instr))
		}
		old := ch.buf
		w.logUndo(func() { ch.buf = old })
		ch.buf = append(slices.Clone(ch.buf), fr.get(instr.X))

	case *ssa.Store:
		addr, _ := fr.get(instr.Addr).(*value)
		if addr == nil {
			if _, isP := fr.get(instr.Addr).(poison); isP {
				unsupported("store through poison pointer at %s", fr.where(instr))
			}
			w.nilDeref(fr, instr)
		}
		if w.lenient {
			w.noteGlobalWrite(instr.Addr)
		}
		w.store(addr, fr.get(instr.Val))

	case *ssa.If:
		succ := 1
		c := fr.get(instr.Cond)
		switch c := c.(type) {
		case bool:
			if c {
				succ = 0
			}
		case *Term:
			if w.decideBool(c, "if") {
				succ = 0
			}
		case poison:
			unsupported("branch on poison value (%s) at %s", c.why, fr.where(instr))
		default:
			panic(fmt.Sprintf("If: unexpected cond %T", c))
		}
		fr.prevBlock, fr.block = fr.block, fr.block.Succs[succ]
		return kJump

	case *ssa.Jump:
		fr.prevBlock, fr.block = fr.block, fr.block.Succs[0]
		return kJump

	case *ssa.Defer:
		fn, args := w.prepareCall(fr, &instr.Call, instr)
		defers := &fr.defers
		if into := fr.get(instr.DeferStack); into != nil {
			defers = into.(**deferred)
		}
		*defers = &deferred{fn: fn, args: args, instr: instr, tail: *defers}

	case *ssa.Go:
		// goroutines run to completion at spawn (sequential model)
		fn, args := w.prepareCall(fr, &instr.Call, instr)
		w.goSpawns++
		w.call(nil, instr.Pos(), fn, args)

	case *ssa.MakeChan:
		n := w.concreteInt(fr.get(instr.Size), 64, true, "make chan size")
		fr.env[instr] = &chanv{cap: int(n)}

	case *ssa.Alloc:
		var addr *value
		if instr.Heap {
			addr = new(value)
			fr.env[instr] = addr
		} else {
			addr = fr.env[instr].(*value)
		}
		*addr = zero(deref(instr.Type()))

	case *ssa.MakeSlice:
		capv := w.concreteInt(fr.get(instr.Cap), 64, true, "make cap")
		lenv := w.concreteInt(fr.get(instr.Len), 64, true, "make len")
		if lenv < 0 || capv < lenv || capv > 1<<26 {
			if capv > 1<<26 {
				unsupported("make: %d elements (engine limit) at %s", capv, fr.where(instr))
			}
			panic(targetPanic{v: runtimeErr("makeslice: len out of range"), where: fr.where(instr)})
		}
		sl := make([]value, capv)
		tElt := instr.Type().Underlying().(*types.Slice).Elem()
		for i := range sl {
			sl[i] = zero(tElt)
		}
		fr.env[instr] = sl[:lenv]

	case *ssa.MakeMap:
		fr.env[instr] = newOmap(instr.Type().Underlying().(*types.Map).Key())

	case *ssa.Range:
		fr.env[instr] = w.rangeIter(fr.get(instr.X))

	case *ssa.Next:
		fr.env[instr] = fr.get(instr.Iter).(iter).next(w)

	case *ssa.FieldAddr:
		p, _ := fr.get(instr.X).(*value)
		if p == nil {
			if _, isP := fr.get(instr.X).(poison); isP {
				unsupported("field address of poison pointer at %s", fr.where(instr))
			}
			w.nilDeref(fr, instr)
		}
		s, ok := (*p).(structure)
		if !ok {
			unsupported("FieldAddr on %T at %s", *p, fr.where(instr))
		}
		fr.env[instr] = &s[instr.Field]

	case *ssa.Field:
		x := fr.get(instr.X)
		if p, ok := x.(poison); ok {
			fr.env[instr] = p
		} else {
			fr.env[instr] = x.(structure)[instr.Field]
		}

	case *ssa.IndexAddr:
		x := fr.get(instr.X)
		var n int
		switch x := x.(type) {
		case []value:
			n = len(x)
		case *value:
			if x == nil {
				w.nilDeref(fr, instr)
			}
			n = len((*x).(array))
		default:
			unsupported("IndexAddr on %T at %s", x, fr.where(instr))
		}
		idx := w.indexValue(fr, instr, fr.get(instr.Index), instr.Index.Type(), n)
		switch x := x.(type) {
		case []value:
			fr.env[instr] = &x[idx]
		case *value:
			fr.env[instr] = &(*x).(array)[idx]
		}

	case *ssa.Index:
		x := fr.get(instr.X)
		switch x := x.(type) {
		case array:
			idx := w.indexValue(fr, instr, fr.get(instr.Index), instr.Index.Type(), len(x))
			fr.env[instr] = copyVal(x[idx])
		case string:
			if it, ok := fr.get(instr.Index).(*Term); ok && len(x) <= 256 && len(x) > 0 {
				// read-only table lookup with a symbolic index: ite chain
				bw, _, _ := intInfo(instr.Index.Type())
				if bw < 64 && uint64(len(x)) > mask(bw) {
					acc := w.tc.BVConst(8, uint64(x[len(x)-1]))
					for i := len(x) - 2; i >= 0; i-- {
						acc = w.tc.Ite(w.tc.Eq(it, w.tc.BVConst(bw, uint64(i))), w.tc.BVConst(8, uint64(x[i])), acc)
					}
					fr.env[instr] = simp(acc)
					break
				}
			}
			idx := w.indexValue(fr, instr, fr.get(instr.Index), instr.Index.Type(), len(x))
			fr.env[instr] = uint64(x[idx])
		case *symString:
			idx := w.indexValue(fr, instr, fr.get(instr.Index), instr.Index.Type(), len(x.b))
			fr.env[instr] = x.b[idx]
		default:
			unsupported("Index on %T at %s", x, fr.where(instr))
		}

	case *ssa.Lookup:
		fr.env[instr] = w.lookup(fr, instr, fr.get(instr.X), fr.get(instr.Index))

	case *ssa.MapUpdate:
		m, _ := fr.get(instr.Map).(*omap)
		if m == nil {
			panic(targetPanic{v: runtimeErr("assignment to entry in nil map"), where: fr.where(instr)})
		}
		w.mapInsert(m, fr.get(instr.Key), copyVal(fr.get(instr.Value)))

	case *ssa.TypeAssert:
		x := fr.get(instr.X)
		if p, ok := x.(poison); ok {
			unsupported("type assert on poison (%s) at %s", p.why, fr.where(instr))
		}
		fr.env[instr] = w.typeAssert(fr, instr, x.(iface))

	case *ssa.MakeClosure:
		var bindings []value
		for _, binding := range instr.Bindings {
			bindings = append(bindings, fr.get(binding))
		}
		fr.env[instr] = &closure{instr.Fn.(*ssa.Function), bindings}

	case *ssa.Phi:
		panic("unreachable: phi")

	case *ssa.Select:
		fr.env[instr] = w.doSelect(fr, instr)

	default:
		panic(fmt.Sprintf("unexpected instruction: %T", instr))
	}
	return kNext
}

func (w *Worker) doSelect(fr *frame, instr *ssa.Select) value {
	chosen := -1
	var recv value
	recvOk := false
	for i, st := range instr.States {
		ch, _ := fr.get(st.Chan).(*chanv)
		if ch == nil {
			continue
		}
		if st.Dir == types.RecvOnly {
			if len(ch.buf) > 0 {
				chosen = i
				recv = ch.buf[0]
				recvOk = true
				old := ch.buf
				w.logUndo(func() { ch.buf = old })
				ch.buf = ch.buf[1:]
				break
			}
			if ch.closed {
				chosen = i
				break
			}
		} else {
			if ch.closed {
				panic(targetPanic{v: runtimeErr("send on closed channel"), where: fr.where(instr)})
			}
			if len(ch.buf) < ch.cap {
				chosen = i
				old := ch.buf
				w.logUndo(func() { ch.buf = old })
				ch.buf = append(slices.Clone(ch.buf), fr.get(st.Send))
				break
			}
		}
	}
	if chosen < 0 && instr.Blocking {
		unsupported("blocking select at %s", fr.where(instr))
	}
	r := tuple{uint64(int64(chosen)), recvOk}
	for i, st := range instr.States {
		if st.Dir == types.RecvOnly {
			var v value
			if i == chosen && recvOk {
				v = recv
			} else {
				v = zero(st.Chan.Type().Underlying().(*types.Chan).Elem())
			}
			r = append(r, v)
		}
	}
	return r
}

func (w *Worker) noteGlobalWrite(a ssa.Value) {
	for {
		switch x := a.(type) {
		case *ssa.Global:
			w.gWritten[x] = true
			return
		case *ssa.FieldAddr:
			a = x.X
		case *ssa.IndexAddr:
			a = x.X
		default:
			return
		}
	}
}

// store writes v into *addr (deep for aggregates), logging for undo.
func (w *Worker) store(addr *value, v value) {
	switch rhs := v.(type) {
	case structure:
		lhs, ok := (*addr).(structure)
		if !ok || len(lhs) != len(rhs) {
			w.set(addr, copyVal(v))
			return
		}
		for i := range lhs {
			w.store(&lhs[i], rhs[i])
		}
	case array:
		lhs, ok := (*addr).(array)
		if !ok || len(lhs) != len(rhs) {
			w.set(addr, copyVal(v))
			return
		}
		for i := range lhs {
			w.store(&lhs[i], rhs[i])
		}
	default:
		w.set(addr, v)
	}
}

func (w *Worker) set(addr *value, v value) {
	if w.undoOn {
		w.undo = append(w.undo, undoRec{addr: addr, old: *addr})
	}
	*addr = v
}

func (w *Worker) logUndo(f func()) {
	if w.undoOn {
		w.undo = append(w.undo, undoRec{fn: f})
	}
}

type undoRec struct {
	addr *value
	old  value
	fn   func()
}

func (w *Worker) rollback() {
	for i := len(w.undo) - 1; i >= 0; i-- {
		u := w.undo[i]
		if u.fn != nil {
			u.fn()
		} else {
			*u.addr = u.old
		}
	}
	w.undo = w.undo[:0]
}

// concreteInt forces an integer value to be concrete (forking over feasible values).
func (w *Worker) concreteInt(v value, bw int, signed bool, what string) int64 {
	switch v := v.(type) {
	case nil:
		return 0
	case uint64:
		if signed {
			return sext64(v, bw)
		}
		return int64(v)
	case *Term:
		c := w.concretize(v, what)
		if signed {
			return sext64(c, v.S.W)
		}
		return int64(c)
	case poison:
		unsupported("poison integer (%s) in %s", v.why, what)
	}
	panic(fmt.Sprintf("concreteInt: %T", v))
}

// indexValue checks bounds and concretises an index.
func (w *Worker) indexValue(fr *frame, instr ssa.Instruction, idx value, t types.Type, n int) int {
	bw, signed, _ := intInfo(t)
	switch idx := idx.(type) {
	case uint64:
		var i int64
		if signed {
			i = sext64(idx, bw)
		} else {
			if idx > uint64(1<<62) {
				i = -1
			} else {
				i = int64(idx)
			}
		}
		if i < 0 || i >= int64(n) {
			panic(targetPanic{v: runtimeErr(fmt.Sprintf("index out of range [%d] with length %d", i, n)), where: fr.where(instr)})
		}
		return int(i)
	case *Term:
		inRange := w.tc.True
		if bw >= 64 || uint64(n) <= mask(bw) {
			inRange = w.tc.BvCmp(OBvUlt, idx, w.tc.BVConst(bw, uint64(n)))
		}
		if !w.decideBool(inRange, "index in range") {
			panic(targetPanic{v: runtimeErr(fmt.Sprintf("index out of range [symbolic] with length %d", n)), where: fr.where(instr)})
		}
		return int(w.concretize(idx, "index"))
	case poison:
		unsupported("poison index at %s", fr.where(instr))
	}
	panic(fmt.Sprintf("indexValue: %T", idx))
}

func (w *Worker) slice(fr *frame, instr *ssa.Slice, x, lo, hi, max value) value {
	var Len, Cap int
	switch x := x.(type) {
	case string:
		Len = len(x)
		Cap = Len
	case *symString:
		Len = len(x.b)
		Cap = Len
	case []value:
		Len = len(x)
		Cap = cap(x)
	case *value:
		if x == nil {
			w.nilDeref(fr, instr)
		}
		a := (*x).(array)
		Len = len(a)
		Cap = len(a)
	case poison:
		return x
	default:
		panic(fmt.Sprintf("slice: unexpected X type: %T", x))
	}
	l := int64(0)
	if lo != nil {
		l = w.boundInt(lo, instr.Low.Type(), Cap, "slice low")
	}
	h := int64(Len)
	if hi != nil {
		h = w.boundInt(hi, instr.High.Type(), Cap, "slice high")
	}
	m := int64(Cap)
	if max != nil {
		m = w.boundInt(max, instr.Max.Type(), Cap, "slice max")
	}
	if l < 0 || h < l || m < h || m > int64(Cap) {
		panic(targetPanic{v: runtimeErr(fmt.Sprintf("slice bounds out of range [%d:%d:%d] with capacity %d", l, h, m, Cap)), where: fr.where(instr)})
	}
	switch x := x.(type) {
	case string:
		return x[l:h]
	case *symString:
		return mkString(x.b[l:h])
	case []value:
		if x == nil {
			return x
		}
		return x[l:h:m]
	case *value:
		a := (*x).(array)
		return []value(a)[l:h:m]
	}
	panic("unreachable")
}

// boundInt returns a concrete bound; symbolic bounds fork on in-range vs not.
func (w *Worker) boundInt(v value, t types.Type, capv int, what string) int64 {
	bw, signed, _ := intInfo(t)
	switch v := v.(type) {
	case uint64:
		if signed {
			return sext64(v, bw)
		}
		if v > 1<<62 {
			return -1
		}
		return int64(v)
	case *Term:
		inRange := w.tc.True
		if bw >= 64 || uint64(capv) <= mask(bw) {
			inRange = w.tc.BvCmp(OBvUle, v, w.tc.BVConst(bw, uint64(capv)))
		}
		if !w.decideBool(inRange, what+" in range") {
			return -1
		}
		return int64(w.concretize(v, what))
	case poison:
		unsupported("poison slice bound")
	}
	panic(fmt.Sprintf("boundInt: %T", v))
}

func (w *Worker) typeAssert(fr *frame, instr *ssa.TypeAssert, itf iface) value {
	var v value
	err := ""
	if itf.t == nil {
		err = fmt.Sprintf("interface conversion: interface is nil, not %s", instr.AssertedType)
	} else if idst, ok := instr.AssertedType.Underlying().(*types.Interface); ok {
		v = itf
		if meth, _ := types.MissingMethod(itf.t, idst, true); meth != nil {
			err = fmt.Sprintf("interface conversion: %v is not %v: missing method %s", itf.t, instr.AssertedType, meth.Name())
		}
	} else if types.Identical(itf.t, instr.AssertedType) {
		v = copyVal(itf.v)
	} else {
		err = fmt.Sprintf("interface conversion: interface is %s, not %s", itf.t, instr.AssertedType)
	}
	if err != "" {
		if !instr.CommaOk {
			panic(targetPanic{v: runtimeErr(err), where: fr.where(instr)})
		}
		return tuple{zero(instr.AssertedType), false}
	}
	if instr.CommaOk {
		return tuple{v, true}
	}
	return v
}

// ---- maps ----

// mapFind returns the position of key in m or -1; may fork on symbolic equality.
func (w *Worker) mapFind(m *omap, key value) int {
	if m == nil {
		return -1
	}
	if p, ok := key.(poison); ok {
		unsupported("poison map key: %s", p.why)
	}
	ck, conc := canonKey(key)
	if conc {
		if i, ok := m.index[ck]; ok {
			return i
		}
		if m.nsym == 0 {
			return -1
		}
	}
	for i, e := range m.ents {
		if conc {
			if _, ec := canonKey(e.key); ec {
				continue // concrete vs concrete, already checked through the index
			}
		}
		eq := w.equals(m.keyType, key, e.key)
		switch eq := eq.(type) {
		case bool:
			if eq {
				return i
			}
		case *Term:
			if w.decideBool(eq, "map key match") {
				return i
			}
		}
	}
	return -1
}

func (w *Worker) mapInsert(m *omap, key, val value) {
	i := w.mapFind(m, key)
	if i >= 0 {
		e := m.ents[i]
		old := e.val
		w.logUndo(func() { e.val = old })
		e.val = val
		return
	}
	ck, conc := canonKey(key)
	oldEnts := m.ents
	m.ents = append(slices.Clone(m.ents), &mentry{key: key, val: val})
	if conc {
		m.index[ck] = len(m.ents) - 1
		w.logUndo(func() { m.ents = oldEnts; delete(m.index, ck) })
	} else {
		m.nsym++
		w.logUndo(func() { m.ents = oldEnts; m.nsym-- })
	}
}

func (w *Worker) mapDelete(m *omap, key value) {
	i := w.mapFind(m, key)
	if i < 0 {
		return
	}
	oldEnts := m.ents
	oldIndex := m.index
	oldNsym := m.nsym
	w.logUndo(func() { m.ents = oldEnts; m.index = oldIndex; m.nsym = oldNsym })
	ne := make([]*mentry, 0, len(m.ents)-1)
	ne = append(ne, m.ents[:i]...)
	ne = append(ne, m.ents[i+1:]...)
	m.ents = ne
	m.index = map[string]int{}
	m.nsym = 0
	for j, e := range m.ents {
		if ck, ok := canonKey(e.key); ok {
			m.index[ck] = j
		} else {
			m.nsym++
		}
	}
}

func (w *Worker) lookup(fr *frame, instr *ssa.Lookup, x, idx value) value {
	switch x := x.(type) {
	case *omap:
		var v value
		ok := false
		if i := w.mapFind(x, idx); i >= 0 {
			v = copyVal(x.ents[i].val)
			ok = true
		} else {
			v = zero(instr.X.Type().Underlying().(*types.Map).Elem())
		}
		if instr.CommaOk {
			return tuple{v, ok}
		}
		return v
	case string:
		i := w.indexValue(fr, instr, idx, instr.Index.Type(), len(x))
		return uint64(x[i])
	case *symString:
		i := w.indexValue(fr, instr, idx, instr.Index.Type(), len(x.b))
		return x.b[i]
	case poison:
		unsupported("lookup in poison map (%s) at %s", x.why, fr.where(instr))
	}
	panic(fmt.Sprintf("unexpected x type in Lookup: %T", x))
}

type mapIter struct {
	ents []*mentry
	i    int
}

func (it *mapIter) next(w *Worker) tuple {
	if it.i >= len(it.ents) {
		return tuple{false, nil, nil}
	}
	e := it.ents[it.i]
	it.i++
	return tuple{true, e.key, copyVal(e.val)}
}

type stringIter struct {
	s string
	i int
}

func (it *stringIter) next(w *Worker) tuple {
	if it.i >= len(it.s) {
		return tuple{false, nil, nil}
	}
	r, n := decodeRune(it.s[it.i:])
	k := it.i
	it.i += n
	return tuple{true, uint64(k), uint64(uint32(r))}
}

func decodeRune(s string) (rune, int) {
	for _, r := range s {
		n := len(string(r))
		if r == 0xFFFD && (len(s) < 3 || s[:3] != "�") {
			n = 1
		}
		return r, n
	}
	return 0, 0
}

func (w *Worker) rangeIter(x value) iter {
	switch x := x.(type) {
	case *omap:
		var ents []*mentry
		if x != nil {
			ents = slices.Clone(x.ents)
		}
		if w.mapOrder > 0 && len(ents) > 1 {
			if len(ents) > 4 {
				unsupported("map-order exploration over %d entries (limit 4)", len(ents))
			}
			// choose a permutation: successive choices of the next element
			perm := make([]*mentry, 0, len(ents))
			rest := ents
			for len(rest) > 1 {
				k := w.chooseFree(len(rest), "map order")
				perm = append(perm, rest[k])
				nr := make([]*mentry, 0, len(rest)-1)
				nr = append(nr, rest[:k]...)
				nr = append(nr, rest[k+1:]...)
				rest = nr
			}
			perm = append(perm, rest[0])
			ents = perm
		}
		return &mapIter{ents: ents}
	case string:
		return &stringIter{s: x}
	case *symString:
		unsupported("range over symbolic string")
	case poison:
		unsupported("range over poison value: %s", x.why)
	}
	panic(fmt.Sprintf("cannot range over %T", x))
}

// ---- calls ----

func (w *Worker) prepareCall(fr *frame, call *ssa.CallCommon, instr ssa.Instruction) (fn value, args []value) {
	v := fr.get(call.Value)
	if call.Method == nil {
		fn = v
	} else {
		if p, ok := v.(poison); ok {
			return poison{"method call on poison value (" + p.why + ") at " + fr.where(instr)}, nil
		}
		recv := v.(iface)
		if recv.t == nil {
			panic(targetPanic{v: runtimeErr("invalid memory address or nil pointer dereference (method call on nil interface)"), where: fr.where(instr)})
		}
		f := w.lookupMethod(recv.t, call.Method)
		if f == nil {
			panic(fmt.Sprintf("method set for dynamic type %v does not contain %s", recv.t, call.Method))
		}
		fn = f
		args = append(args, recv.v)
	}
	for _, arg := range call.Args {
		args = append(args, copyVal(fr.get(arg)))
	}
	return
}

func (w *Worker) call(caller *frame, callpos token.Pos, fn value, args []value) (result value) {
	if w.lenient && caller != nil {
		// init-time leniency: a call the engine cannot execute yields poison
		depth := w.depth
		defer func() {
			if r := recover(); r != nil {
				switch r := r.(type) {
				case targetPanic, pathEnd:
					panic(r)
				case unsupportedErr:
					w.depth = depth
					result = poison{r.msg}
				case enginePanic:
					w.depth = depth
					result = poison{fmt.Sprintf("engine error: %v at %s", r.val, r.where)}
				default:
					w.depth = depth
					result = poison{fmt.Sprintf("engine error: %v", r)}
				}
			}
		}()
	}
	switch fn := fn.(type) {
	case *ssa.Function:
		if fn == nil {
			panic(targetPanic{v: runtimeErr("invalid memory address or nil pointer dereference (call of nil func)"), where: w.posStr(callpos)})
		}
		return w.callSSA(caller, callpos, fn, args, nil)
	case *closure:
		return w.callSSA(caller, callpos, fn.Fn, args, fn.Env)
	case *ssa.Builtin:
		return w.callBuiltin(caller, callpos, fn, args)
	case poison:
		unsupported("call of poison function value (%s) at %s", fn.why, w.posStr(callpos))
	}
	panic(fmt.Sprintf("cannot call %T", fn))
}

// targetStack renders the interpreted call stack (innermost first).
func (w *Worker) targetStack() string {
	var sb strings.Builder
	n := 0
	for fr := w.curFrame; fr != nil && n < 25; fr = fr.caller {
		loc := ""
		if fr.cur != nil {
			loc = " @ " + w.posStr(fr.cur.Pos())
		}
		fmt.Fprintf(&sb, "\n          in %s%s", fr.fn, loc)
		n++
	}
	return sb.String()
}

func fnKey(fn *ssa.Function) string {
	if o := fn.Origin(); o != nil {
		return o.String()
	}
	return fn.String()
}

func (w *Worker) callSSA(caller *frame, callpos token.Pos, fn *ssa.Function, args []value, env []value) value {
	fr := &frame{w: w, caller: caller, fn: fn}
	if fn.Synthetic == "package initializer" && caller != nil {
		return nil // ordering of package initialisers is handled by initPackage
	}
	if fn.Parent() == nil {
		name := fnKey(fn)
		if to, ok := w.eng.redirects[name]; ok {
			// harness-side replacement of a function the engine cannot execute (listed in evidence)
			target := w.eng.harnessPkg.Func(to)
			if target == nil {
				unsupported("redirect target %s not found in the harness package", to)
			}
			w.intrinsicHits["redirect:"+name+"=>"+to]++
			return w.callSSA(caller, callpos, target, args, nil)
		}
		if in := w.eng.intrinsics[name]; in != nil {
			w.intrinsicHits[name]++
			return in(w, fr, fn, args)
		}
		if fn.Pkg != nil {
			pp := fn.Pkg.Pkg.Path()
			if strings.HasSuffix(pp, "/verifsymx") {
				return w.symxCall(fr, fn, args)
			}
			if w.eng.blockedPkgs[pp] {
				unsupported("call into unsupported package: %s (at %s)", name, w.posStr(callpos))
			}
		}
		if fn.Blocks == nil {
			unsupported("no code for function: %s (at %s)", name, w.posStr(callpos))
		}
	}
	if fn.TypeParams().Len() > 0 && len(fn.TypeArgs()) == 0 {
		unsupported("uninstantiated generic function %s", fn)
	}
	w.depth++
	if w.depth > 2000 {
		panic(pathEnd{"call-depth-limit"})
	}
	prevFrame := w.curFrame
	w.curFrame = fr
	defer func() {
		w.depth--
		if r := recover(); r != nil {
			if w.failStack == "" {
				w.failStack = w.targetStack()
			}
			w.curFrame = prevFrame
			panic(r)
		}
		w.curFrame = prevFrame
	}()
	if w.eng.trackFuncs {
		w.funcsSeen[fn]++
	}
	if w.eng.trace {
		fmt.Fprintf(w.eng.traceOut, "%*senter %s\n", w.depth, "", fn)
	}
	fr.env = make(map[ssa.Value]value, len(fn.Params)+len(fn.Locals)+8)
	fr.block = fn.Blocks[0]
	fr.locals = make([]value, len(fn.Locals))
	for i, l := range fn.Locals {
		fr.locals[i] = zero(deref(l.Type()))
		fr.env[l] = &fr.locals[i]
	}
	for i, p := range fn.Params {
		fr.env[p] = args[i]
	}
	for i, fv := range fn.FreeVars {
		fr.env[fv] = env[i]
	}
	for fr.block != nil {
		w.runFrame(fr)
	}
	return fr.result
}

func (w *Worker) runFrame(fr *frame) {
	defer func() {
		if fr.block == nil {
			return
		}
		r := recover()
		tp, ok := r.(targetPanic)
		if !ok {
			switch r.(type) {
			case unsupportedErr, pathEnd, enginePanic:
				panic(r) // engine-level abort: propagate untouched
			}
			where := fr.fn.String()
			if fr.cur != nil {
				where = fr.where(fr.cur)
			}
			panic(enginePanic{val: r, where: where, stack: string(debug.Stack())})
		}
		if tp.where == "" {
			tp.where = fr.fn.String()
		}
		fr.panicking = true
		fr.panic = tp
		fr.runDefers()
		fr.block = fr.fn.Recover
		if fr.block == nil {
			// recovered, no named results: return zero values
			fr.result = zero(fr.fn.Signature.Results())
			if fr.fn.Signature.Results().Len() == 0 {
				fr.result = nil
			}
		}
	}()
	for {
		nonPhis := w.executePhis(fr)
		for _, instr := range nonPhis {
			fr.cur = instr
			if w.visitInstr(fr, instr) == kReturn {
				return
			}
		}
	}
}

func (w *Worker) executePhis(fr *frame) []ssa.Instruction {
	firstNonPhi := -1
	for i, instr := range fr.block.Instrs {
		if _, ok := instr.(*ssa.Phi); !ok {
			firstNonPhi = i
			break
		}
	}
	nonPhis := fr.block.Instrs[firstNonPhi:]
	if firstNonPhi > 0 {
		phis := fr.block.Instrs[:firstNonPhi]
		predIndex := slices.Index(fr.block.Preds, fr.prevBlock)
		fr.phitemps = fr.phitemps[:0]
		for _, phi := range phis {
			phi := phi.(*ssa.Phi)
			fr.phitemps = append(fr.phitemps, fr.get(phi.Edges[predIndex]))
		}
		for i, phi := range phis {
			fr.env[phi.(*ssa.Phi)] = fr.phitemps[i]
		}
	}
	return nonPhis
}

func (w *Worker) doRecover(caller *frame) value {
	if caller != nil && !caller.panicking && caller.caller != nil && caller.caller.panicking {
		caller.caller.panicking = false
		p := caller.caller.panic
		caller.caller.panic = nil
		switch p := p.(type) {
		case targetPanic:
			return p.v
		default:
			panic(p)
		}
	}
	return iface{}
}

func (w *Worker) callBuiltin(caller *frame, callpos token.Pos, fn *ssa.Builtin, args []value) value {
	switch fn.Name() {
	case "append":
		if len(args) == 1 {
			return args[0]
		}
		dst, _ := args[0].([]value)
		var src []value
		switch s := args[1].(type) {
		case string, *symString:
			src = strBytes(s)
		case []value:
			src = s
		case poison:
			return s
		default:
			panic(fmt.Sprintf("append: %T", s))
		}
		if len(src) == 0 {
			return dst
		}
		n := len(dst) + len(src)
		if n <= cap(dst) {
			res := dst[:n]
			for i, v := range src {
				w.set(&res[len(dst)+i], copyVal(v))
			}
			return res
		}
		nc := 2 * cap(dst)
		if nc < n {
			nc = n
		}
		res := make([]value, n, nc)
		copy(res, dst)
		for i, v := range src {
			res[len(dst)+i] = copyVal(v)
		}
		// cells beyond len must hold zero values of the element type
		if nc > n {
			elt := fn.Type().(*types.Signature).Params().At(0).Type().Underlying().(*types.Slice).Elem()
			for i := n; i < nc; i++ {
				res[:nc][i] = zero(elt)
			}
		}
		return res

	case "copy":
		dst, _ := args[0].([]value)
		var src []value
		switch s := args[1].(type) {
		case string, *symString:
			src = strBytes(s)
		case []value:
			src = s
		}
		n := len(dst)
		if len(src) < n {
			n = len(src)
		}
		if n > 0 && &dst[0] != &src[0] {
			// handle overlap like memmove
			tmp := make([]value, n)
			copy(tmp, src[:n])
			for i := 0; i < n; i++ {
				w.set(&dst[i], copyVal(tmp[i]))
			}
		}
		return uint64(n)

	case "close":
		ch, _ := args[0].(*chanv)
		if ch == nil {
			panic(targetPanic{v: runtimeErr("close of nil channel")})
		}
		w.logUndo(func() { ch.closed = false })
		ch.closed = true
		return nil

	case "delete":
		m, _ := args[0].(*omap)
		if m != nil {
			w.mapDelete(m, args[1])
		}
		return nil

	case "clear":
		switch x := args[0].(type) {
		case *omap:
			if x != nil {
				oldEnts, oldIndex, oldNsym := x.ents, x.index, x.nsym
				w.logUndo(func() { x.ents = oldEnts; x.index = oldIndex; x.nsym = oldNsym })
				x.ents = nil
				x.index = map[string]int{}
				x.nsym = 0
			}
		case []value:
			elt := fn.Type().(*types.Signature).Params().At(0).Type().Underlying().(*types.Slice).Elem()
			for i := range x {
				w.set(&x[i], zero(elt))
			}
		}
		return nil

	case "print", "println":
		return nil

	case "len":
		switch x := args[0].(type) {
		case string:
			return uint64(len(x))
		case *symString:
			return uint64(len(x.b))
		case array:
			return uint64(len(x))
		case *value:
			if x == nil {
				// len of nil *array is the static length
				t := fn.Type().(*types.Signature).Params().At(0).Type()
				return uint64(deref(t).Underlying().(*types.Array).Len())
			}
			return uint64(len((*x).(array)))
		case []value:
			return uint64(len(x))
		case *omap:
			return uint64(x.length())
		case *chanv:
			if x == nil {
				return uint64(0)
			}
			return uint64(len(x.buf))
		case poison:
			return x
		default:
			panic(fmt.Sprintf("len: illegal operand: %T", x))
		}

	case "cap":
		switch x := args[0].(type) {
		case array:
			return uint64(len(x))
		case *value:
			return uint64(len((*x).(array)))
		case []value:
			return uint64(cap(x))
		case *chanv:
			if x == nil {
				return uint64(0)
			}
			return uint64(x.cap)
		default:
			panic(fmt.Sprintf("cap: illegal operand: %T", x))
		}

	case "min", "max":
		t := fn.Type().(*types.Signature).Params().At(0).Type()
		x := args[0]
		for _, y := range args[1:] {
			var lt value
			if fn.Name() == "min" {
				lt = w.binop(token.LSS, t, t, y, x)
			} else {
				lt = w.binop(token.GTR, t, t, y, x)
			}
			switch lt := lt.(type) {
			case bool:
				if lt {
					x = y
				}
			case *Term:
				bw, _, _ := intInfo(t)
				x = simp(w.tc.Ite(lt, w.termOf(y, bw), w.termOf(x, bw)))
			}
		}
		return x

	case "panic":
		panic(targetPanic{v: args[0], where: w.posStr(callpos)})

	case "recover":
		return w.doRecover(caller)

	case "ssa:wrapnilchk":
		recv := args[0]
		if p, ok := recv.(*value); ok && p == nil {
			panic(targetPanic{v: runtimeErr(fmt.Sprintf("value method %v.%v called using nil pointer", toString(args[1]), toString(args[2]))), where: w.posStr(callpos)})
		}
		return recv

	case "ssa:deferstack":
		return &caller.defers
	}
	panic("unknown built-in: " + fn.Name())
}
