package main

// Path exploration: stateless re-execution with decision prefixes.

import (
	"fmt"
	"go/types"
	"math/big"
	"os"
	"os/exec"
	"runtime/debug"
	"sort"
	"strings"
	"sync"
	"time"

	"golang.org/x/tools/go/ssa"
)

const forcedBit = uint64(1) << 63

type inputRec struct {
	Name string
	T    *Term
}

type hashApp struct {
	fn  string
	in  *Term // BV(8n) or nil when n == 0
	n   int
	out *Term // BV256
}

type Counterexample struct {
	Harness string            `json:"harness"`
	Kind    string            `json:"kind"` // assert | panic
	Label   string            `json:"label"`
	Where   string            `json:"where"`
	Covers  []string          `json:"covers"`
	Witness map[string]string `json:"witness"`
	Prefix  []uint64          `json:"prefix"`
}

type PathSample struct {
	Decisions int               `json:"decisions"`
	Covers    []string          `json:"covers"`
	Witness   map[string]string `json:"witness,omitempty"`
	Observed  []string          `json:"observed,omitempty"`
	PC        []string          `json:"path_condition,omitempty"`
}

type Worker struct {
	eng *Engine
	id  int
	tc  *TermCtx
	sol *Solver

	globals     map[*ssa.Global]*value
	initialised map[*ssa.Package]bool
	initFailed  map[*ssa.Package]string
	gWritten    map[*ssa.Global]bool
	undo        []undoRec
	undoOn      bool
	lenient     bool

	// per path
	steps          int
	depth          int
	mapOrder       int
	goSpawns       int
	prefix         []uint64
	pos            int
	trace          []uint64
	inputs         []inputRec
	inputSeen      map[string]*Term
	hashApps       []hashApp
	covers         []string
	observed       []string
	pcTerms        []*Term
	known          map[*Term]bool
	fresh          int
	curHarn        *harnessRun
	curFrame       *frame
	failStack      string
	lastPanicStack string
	sigs           []sigRec
	rngMode        int
	rngTape        []int
	rngPos         int
	cborBlobs      map[string]*cborRec
	range256       int

	intrinsicHits map[string]int
	funcsSeen     map[*ssa.Function]int
	pathsDone     int
}

type harnessRun struct {
	name string
	fn   *ssa.Function
	cfg  map[string]int64

	mu        sync.Mutex
	cond      *sync.Cond
	queue     [][]uint64
	active    int
	stopped   bool
	maxPaths  int
	started   int
	res       *HarnessResult
	sampleMax int
}

type HarnessResult struct {
	Harness           string            `json:"harness"`
	Cfg               map[string]int64  `json:"cfg,omitempty"`
	Paths             int               `json:"paths_completed"`
	PathsAssumed      int               `json:"paths_cut_by_assume"`
	PathsPanicked     int               `json:"paths_ending_in_expected_panic"`
	Decisions         int               `json:"decisions_forked"`
	Asserts           int               `json:"assert_queries"`
	AssertsConc       int               `json:"asserts_concrete"`
	Sat               int               `json:"solver_sat"`
	Unsat             int               `json:"solver_unsat"`
	Unknown           int               `json:"solver_unknown"`
	SolverSec         float64           `json:"solver_seconds"`
	WallSec           float64           `json:"wall_seconds"`
	Steps             int64             `json:"ssa_instructions_executed"`
	Covers            map[string]int    `json:"covers"`
	Violations        []*Counterexample `json:"violations"`
	Inconclusive      []string          `json:"inconclusive"`
	Samples           []*PathSample     `json:"samples"`
	Intrinsics        map[string]int    `json:"intrinsics_hit"`
	Funcs             map[string]int    `json:"functions_executed"`
	SolverErrors      []string          `json:"solver_errors,omitempty"`
	GoSpawns          int               `json:"goroutines_run_sequentially"`
	MaxDecisions      int               `json:"max_decisions_on_a_path"`
	FeasUnknown       int               `json:"feasibility_queries_unknown_treated_as_feasible"`
	AssertUnknown     int               `json:"assertion_queries_unknown"`
	Portfolio         int               `json:"assertions_discharged_by_portfolio_fallback"`
	InfeasibleDropped int               `json:"failures_on_paths_proved_infeasible"`
}

func (hr *harnessRun) feasUnknown(n int) {
	hr.mu.Lock()
	hr.res.FeasUnknown += n
	hr.mu.Unlock()
}

func (hr *harnessRun) noteInconclusive(msg string) {
	hr.mu.Lock()
	defer hr.mu.Unlock()
	for _, m := range hr.res.Inconclusive {
		if m == msg {
			return
		}
	}
	if len(hr.res.Inconclusive) < 50 {
		hr.res.Inconclusive = append(hr.res.Inconclusive, msg)
	}
}

// ---- decisions ----

func (w *Worker) assertPC(t *Term) {
	w.sol.Assert(t)
	w.pcTerms = append(w.pcTerms, t)
	w.noteKnown(t)
}

// noteKnown records a fact that holds on this path (asserted or implied), so
// that repeated decisions on the same condition need no solver query.
func (w *Worker) noteKnown(t *Term) {
	w.known[t] = true
	if t.Op == OAnd {
		w.noteKnown(t.Args[0])
		w.noteKnown(t.Args[1])
	}
}

// decideBool returns the truth value chosen for cond on this path.
func (w *Worker) decideBool(cond *Term, what string) bool {
	if cond.IsConst() {
		return cond.Val == 1
	}
	if w.lenient {
		unsupported("symbolic decision during init")
	}
	if w.known[cond] {
		return true
	}
	ncond0 := w.tc.Not(cond)
	if w.known[ncond0] {
		return false
	}
	if w.pos < len(w.prefix) {
		v := w.prefix[w.pos]
		w.pos++
		w.trace = append(w.trace, v)
		taken := v&^forcedBit == 0
		if v&forcedBit == 0 {
			if taken {
				w.assertPC(cond)
			} else {
				w.assertPC(ncond0)
			}
		} else if taken {
			w.noteKnown(cond)
		} else {
			w.noteKnown(ncond0)
		}
		return taken
	}
	w.pos++
	r0 := w.sol.CheckWith(cond)
	if r0 == Unsat {
		w.trace = append(w.trace, 1|forcedBit)
		w.noteKnown(ncond0)
		return false
	}
	if r0 == Unknown {
		w.curHarn.feasUnknown(1) // treated as feasible: sound over-approximation of the path set
	}
	ncond := w.tc.Not(cond)
	r1 := w.sol.CheckWith(ncond)
	if r1 == Unsat {
		w.trace = append(w.trace, 0|forcedBit)
		w.noteKnown(cond)
		return true
	}
	if r1 == Unknown {
		w.curHarn.feasUnknown(1)
	}
	// both feasible: take true now, queue false
	alt := append(append([]uint64{}, w.trace...), 1)
	w.curHarn.push(alt)
	w.trace = append(w.trace, 0)
	w.assertPC(cond)
	return true
}

// chooseFree is an unconstrained n-way choice (no solver involvement).
func (w *Worker) chooseFree(n int, what string) int {
	if n <= 1 {
		return 0
	}
	if w.pos < len(w.prefix) {
		v := w.prefix[w.pos]
		w.pos++
		w.trace = append(w.trace, v)
		return int(v &^ forcedBit)
	}
	w.pos++
	for k := 1; k < n; k++ {
		alt := append(append([]uint64{}, w.trace...), uint64(k))
		w.curHarn.push(alt)
	}
	w.trace = append(w.trace, 0)
	return 0
}

const maxConcretize = 300

// concretize forks over the feasible values of t.
func (w *Worker) concretize(t *Term, what string) uint64 {
	if t.IsConst() {
		return t.Val
	}
	if w.lenient {
		unsupported("symbolic concretisation during init")
	}
	if w.pos < len(w.prefix) {
		v := w.prefix[w.pos]
		w.pos++
		w.trace = append(w.trace, v)
		val := v &^ forcedBit
		if v&forcedBit == 0 {
			w.assertPC(w.tc.Eq(t, w.tc.BVConst(t.S.W, val)))
		}
		return val
	}
	w.pos++
	var vals []uint64
	w.sol.Push()
	for {
		r := w.sol.Check()
		if r == Unknown {
			w.sol.Pop()
			unsupported("solver unknown while enumerating values for %s", what)
		}
		if r == Unsat {
			break
		}
		m, err := w.sol.GetValues([]*Term{t})
		if err != nil {
			w.sol.Pop()
			unsupported("get-value failed: %v", err)
		}
		v := m[t].Uint64()
		vals = append(vals, v)
		if len(vals) > maxConcretize {
			w.sol.Pop()
			unsupported("more than %d feasible values for %s (%s)", maxConcretize, what, t)
		}
		w.sol.Assert(w.tc.Not(w.tc.Eq(t, w.tc.BVConst(t.S.W, v))))
	}
	w.sol.Pop()
	if len(vals) == 0 {
		panic(pathEnd{"infeasible"})
	}
	sort.Slice(vals, func(i, j int) bool { return vals[i] < vals[j] })
	if len(vals) == 1 {
		w.trace = append(w.trace, vals[0]|forcedBit)
		return vals[0]
	}
	for _, v := range vals[1:] {
		alt := append(append([]uint64{}, w.trace...), v)
		w.curHarn.push(alt)
	}
	w.trace = append(w.trace, vals[0])
	w.assertPC(w.tc.Eq(t, w.tc.BVConst(t.S.W, vals[0])))
	return vals[0]
}

func (hr *harnessRun) push(p []uint64) {
	hr.mu.Lock()
	hr.queue = append(hr.queue, p)
	hr.res.Decisions++
	hr.mu.Unlock()
	hr.cond.Signal()
}

func (hr *harnessRun) take() ([]uint64, bool) {
	hr.mu.Lock()
	defer hr.mu.Unlock()
	for {
		if hr.stopped {
			return nil, false
		}
		if len(hr.queue) > 0 {
			if hr.started >= hr.maxPaths {
				hr.stopped = true
				hr.res.Inconclusive = append(hr.res.Inconclusive, fmt.Sprintf("path bound exceeded (%d paths started, %d queued)", hr.started, len(hr.queue)))
				hr.cond.Broadcast()
				return nil, false
			}
			// DFS: take the most recently queued
			p := hr.queue[len(hr.queue)-1]
			hr.queue = hr.queue[:len(hr.queue)-1]
			hr.active++
			hr.started++
			return p, true
		}
		if hr.active == 0 {
			hr.cond.Broadcast()
			return nil, false
		}
		hr.cond.Wait()
	}
}

func (hr *harnessRun) done() {
	hr.mu.Lock()
	hr.active--
	if hr.active == 0 && len(hr.queue) == 0 {
		hr.cond.Broadcast()
	}
	hr.mu.Unlock()
}

// ---- inputs ----

func (w *Worker) newInput(name string, s Sort) *Term {
	if fw := w.eng.fixedWitness; fw != nil {
		// concrete (debug / translator validation) mode: inputs come from a witness
		v := new(big.Int)
		if sv, ok := fw[name]; ok {
			v.SetString(sv, 10)
		}
		switch s.K {
		case SBool:
			return w.tc.Bool(v.Sign() != 0)
		case SInt:
			return w.tc.IntConst(v)
		default:
			return w.tc.BVConstBig(s.W, v)
		}
	}
	if t, ok := w.inputSeen[name]; ok {
		if t.S != s {
			unsupported("input %q declared twice with different sorts", name)
		}
		return t
	}
	t := w.tc.Var(name, s)
	w.inputSeen[name] = t
	w.inputs = append(w.inputs, inputRec{name, t})
	return t
}

func (w *Worker) witness() (map[string]string, error) {
	ts := make([]*Term, len(w.inputs))
	for i, in := range w.inputs {
		ts[i] = in.T
	}
	m, err := w.sol.GetValues(ts)
	if err != nil {
		return nil, err
	}
	res := map[string]string{}
	for _, in := range w.inputs {
		res[in.Name] = m[in.T].String()
	}
	for k, v := range w.curHarn.cfg {
		res["cfg:"+k] = fmt.Sprint(v)
	}
	return res, nil
}

// ---- running one path ----

func (w *Worker) resetPath(prefix []uint64) {
	w.steps = 0
	w.depth = 0
	w.mapOrder = 0
	w.prefix = prefix
	w.pos = 0
	w.trace = w.trace[:0]
	w.inputs = w.inputs[:0]
	w.inputSeen = map[string]*Term{}
	w.hashApps = w.hashApps[:0]
	// the empty-input digests (computed at init time, e.g. hash.emptyHash) take part in injectivity
	w.hashBytes("sha512_256", nil)
	w.hashBytes("sha256", nil)
	w.covers = nil
	w.observed = nil
	w.pcTerms = w.pcTerms[:0]
	w.known = map[*Term]bool{}
	w.fresh = 0
	w.curFrame = nil
	w.failStack = ""
	w.cborBlobs = nil
	w.sigs = nil
	w.rngMode, w.rngTape, w.rngPos = 0, nil, 0
}

func (w *Worker) runPath(hr *harnessRun, prefix []uint64) {
	w.resetPath(prefix)
	w.curHarn = hr
	w.sol.Push()
	outcome := "completed"
	var detail string
	func() {
		defer func() {
			r := recover()
			if r == nil {
				return
			}
			switch r := r.(type) {
			case pathEnd:
				outcome = r.reason
			case unsupportedErr:
				outcome = "unsupported"
				detail = r.msg + w.failStack
			case targetPanic:
				outcome = "panic"
				detail = toString(r.v) + " at " + r.where
				w.lastPanicStack = w.failStack
			case enginePanic:
				outcome = "engine-error"
				detail = fmt.Sprintf("%v at %s%s\n%s", r.val, r.where, w.failStack, firstLines(r.stack, 16))
			default:
				outcome = "engine-error"
				detail = fmt.Sprintf("%v\n%s", r, debug.Stack())
			}
		}()
		w.call(nil, 0, hr.fn, nil)
	}()
	res := hr.res
	switch outcome {
	case "completed":
		hr.mu.Lock()
		res.Paths++
		n := res.Paths
		for _, c := range w.covers {
			res.Covers[c]++
		}
		if len(w.trace) > res.MaxDecisions {
			res.MaxDecisions = len(w.trace)
		}
		hr.mu.Unlock()
		if n&(n-1) == 0 && n <= 1<<uint(hr.sampleMax) { // paths 1, 2, 4, 8, ...: a spread of samples
			s := &PathSample{Decisions: len(w.trace), Covers: w.covers, Observed: w.observed}
			if w.sol.Check() == Sat {
				if wit, err := w.witness(); err == nil {
					s.Witness = wit
				}
			}
			for i, t := range w.pcTerms {
				if i >= 12 {
					s.PC = append(s.PC, "...")
					break
				}
				s.PC = append(s.PC, t.str(4))
			}
			hr.mu.Lock()
			res.Samples = append(res.Samples, s)
			hr.mu.Unlock()
		}
	case "assume", "infeasible":
		hr.mu.Lock()
		res.PathsAssumed++
		hr.mu.Unlock()
	case "violation-end":
		// violation already recorded
	case "panic":
		w.recordViolation("panic", detail, detail+w.lastPanicStack)
	case "step-limit", "call-depth-limit":
		hr.noteInconclusive("bound exceeded: " + outcome)
	case "unsupported":
		hr.noteInconclusive("unsupported: " + detail)
	default:
		hr.noteInconclusive(outcome + ": " + detail)
	}
	hr.mu.Lock()
	res.Steps += int64(w.steps)
	res.GoSpawns += w.goSpawns
	hr.mu.Unlock()
	w.goSpawns = 0
	w.sol.Pop()
	w.rollback()
	w.pathsDone++
	if w.pathsDone%400 == 0 {
		// bound solver and term-table growth
		old := w.tc
		w.tc = NewTermCtx()
		w.tc.hashConsts = old.hashConsts
		w.sol.tc = w.tc
		w.sol.Restart()
	}
}

// recordViolation stores a counterexample for the current path condition
// (which must be satisfiable and include the negated assertion if any).
func (w *Worker) recordViolation(kind, label, where string) {
	hr := w.curHarn
	ce := &Counterexample{Harness: hr.name, Kind: kind, Label: label, Where: where, Covers: w.covers, Prefix: append([]uint64{}, w.trace...)}
	r := w.sol.Check()
	if r == Unsat {
		hr.mu.Lock()
		hr.res.InfeasibleDropped++
		hr.mu.Unlock()
		return
	}
	if r == Sat {
		wit, err := w.witness()
		if err != nil {
			hr.noteInconclusive("violation without model: " + err.Error())
			return
		}
		ce.Witness = wit
	} else {
		// a concrete failure on a path whose condition is not known satisfiable: the path may be
		// infeasible (feasibility queries that return unknown are explored as if feasible)
		if w.portfolio(w.tc.True) == Unsat {
			hr.mu.Lock()
			hr.res.InfeasibleDropped++
			hr.mu.Unlock()
			return
		}
		hr.noteInconclusive("violation candidate but path condition not shown satisfiable (" + kind + ": " + label + ")")
		return
	}
	hr.mu.Lock()
	defer hr.mu.Unlock()
	// keep at most 3 per label, 30 in total
	n := 0
	for _, v := range hr.res.Violations {
		if v.Label == label {
			n++
		}
	}
	if n < 3 && len(hr.res.Violations) < 30 {
		hr.res.Violations = append(hr.res.Violations, ce)
	}
}

// ---- harness-facing API (package verifsymx) ----

func (w *Worker) symxCall(fr *frame, fn *ssa.Function, args []value) value {
	name := fn.Name()
	str := func(i int) string {
		s, ok := args[i].(string)
		if !ok {
			unsupported("symx.%s: name must be a concrete string", name)
		}
		return s
	}
	switch name {
	case "Symbolic":
		return true
	case "Attempt":
		return uint64(0)
	case "Bool":
		return simp(w.newInput(str(0), BoolSort))
	case "Uint8", "Byte":
		return simp(w.newInput(str(0), BV(8)))
	case "Uint16":
		return simp(w.newInput(str(0), BV(16)))
	case "Uint32", "Int32":
		return simp(w.newInput(str(0), BV(32)))
	case "Uint64", "Int64", "Int", "Uint":
		return simp(w.newInput(str(0), BV(64)))
	case "Bytes":
		n := int(args[1].(uint64))
		r := make([]value, n)
		for i := range r {
			r[i] = simp(w.newInput(fmt.Sprintf("%s[%d]", str(0), i), BV(8)))
		}
		return r
	case "Choose":
		n := args[1].(uint64)
		if n <= 1 {
			return uint64(0)
		}
		t := w.newInput(str(0), BV(64))
		w.assume(w.tc.BvCmp(OBvUlt, t, w.tc.BVConst(64, n)))
		return w.concretize(t, "choose "+str(0))
	case "BigInt", "Nat":
		t := w.newInput(str(0), IntSort)
		if name == "Nat" {
			w.assume(w.tc.IntCmp(OIntLe, w.tc.IntConst64(0), t))
		}
		cell := w.newBigCell(simp(t))
		return cell
	case "Assume":
		switch c := args[0].(type) {
		case bool:
			if !c {
				panic(pathEnd{"assume"})
			}
		case *Term:
			w.assume(c)
		}
		return nil
	case "Assert":
		w.doAssert(args[0], str(1), fr)
		return nil
	case "Cover":
		w.covers = append(w.covers, str(0))
		return nil
	case "Unreachable":
		w.doAssert(false, "unreachable: "+str(0), fr)
		return nil
	case "Cfg":
		if v, ok := w.curHarn.cfg[str(0)]; ok {
			return uint64(v)
		}
		return args[1]
	case "MapOrderBegin":
		w.mapOrder++
		return nil
	case "MapOrderEnd":
		w.mapOrder--
		return nil
	case "Observe":
		w.observed = append(w.observed, str(0)+"="+toString(args[1]))
		return nil
	case "RNGRecord":
		w.rngMode, w.rngTape, w.rngPos = 1, nil, 0
		return nil
	case "RNGReplay":
		w.rngMode, w.rngPos = 2, 0
		return nil
	case "RNGOff":
		w.rngMode = 0
		return nil
	case "HonestSignature":
		return w.honestSignature(args[0].([]value), args[1].([]value))
	case "IsConcrete":
		_, sym := args[0].(iface).v.(*Term)
		return !sym
	case "Replay", "Run":
		unsupported("symx.%s is native-only", name)
	}
	// helper functions with bodies are interpreted normally
	if fn.Blocks != nil {
		return w.callBody(fr, fn, args)
	}
	unsupported("unknown symx function %s", name)
	return nil
}

// callBody interprets fn's body (used for symx helpers written in Go).
func (w *Worker) callBody(fr *frame, fn *ssa.Function, args []value) value {
	fr.env = make(map[ssa.Value]value)
	fr.block = fn.Blocks[0]
	fr.locals = make([]value, len(fn.Locals))
	for i, l := range fn.Locals {
		fr.locals[i] = zero(deref(l.Type()))
		fr.env[l] = &fr.locals[i]
	}
	for i, p := range fn.Params {
		fr.env[p] = args[i]
	}
	for fr.block != nil {
		w.runFrame(fr)
	}
	return fr.result
}

func (w *Worker) assume(c *Term) {
	if c.IsConst() {
		if c.Val == 0 {
			panic(pathEnd{"assume"})
		}
		return
	}
	w.assertPC(c)
	r := w.sol.Check()
	if r == Unsat {
		panic(pathEnd{"assume"})
	}
	if r == Unknown {
		w.curHarn.feasUnknown(1)
	}
}

func (w *Worker) doAssert(c value, label string, fr *frame) {
	hr := w.curHarn
	where := ""
	if fr != nil && fr.caller != nil {
		where = fr.caller.fn.String()
	}
	switch c := c.(type) {
	case bool:
		hr.mu.Lock()
		hr.res.AssertsConc++
		hr.mu.Unlock()
		if !c {
			w.recordViolation("assert", label, where)
			panic(pathEnd{"violation-end"})
		}
	case *Term:
		hr.mu.Lock()
		hr.res.Asserts++
		hr.mu.Unlock()
		nc := w.tc.Not(c)
		w.sol.Push()
		w.sol.Assert(nc)
		r := w.sol.Check()
		if r == Sat {
			w.recordViolation("assert", label, where)
		} else if r == Unknown && w.portfolio(nc) == Unsat {
			// discharged by a fresh solver process (portfolio fallback)
			r = Unsat
			hr.mu.Lock()
			hr.res.Portfolio++
			hr.mu.Unlock()
		} else if r == Unknown {
			hr.mu.Lock()
			hr.res.AssertUnknown++
			hr.mu.Unlock()
			hr.noteInconclusive("solver unknown on assertion: " + label)
		} else if hr.res != nil && w.eng.dumpQueries != "" {
			w.dumpQuery(label, nc)
		}
		w.sol.Pop()
		// continue under the assertion (no feasibility query needed after unsat)
		if r == Unsat {
			w.assertPC(c)
		} else {
			w.assume(c)
		}
	case poison:
		unsupported("assert on poison value")
	}
}

// portfolio re-submits PC and negated assertion as a standalone query to fresh
// solver processes with other configurations; only an unsat answer is used.
func (w *Worker) portfolio(negated *Term) Result {
	f, err := os.CreateTemp("", "verif-q-*.smt2")
	if err != nil {
		return Unknown
	}
	defer os.Remove(f.Name())
	em := &emitter{seen: map[int]bool{}, tc: w.tc}
	for _, t := range append(append([]*Term{}, w.pcTerms...), negated) {
		em.emit(f, t)
	}
	for _, t := range w.pcTerms {
		fmt.Fprintf(f, "(assert %s)\n", t.ref())
	}
	fmt.Fprintf(f, "(assert %s)\n(check-sat)\n", negated.ref())
	f.Close()
	secs := fmt.Sprint(w.eng.solverTimeoutMs/1000*2 + 10)
	for _, cmd := range [][]string{
		{"z3-new", "-T:" + secs, "smt.random_seed=11", f.Name()},
		{"z3", "-T:" + secs, f.Name()},
		{"z3-new", "-T:" + secs, "smt.arith.solver=6", "smt.random_seed=3", f.Name()},
	} {
		out, _ := exec.Command(cmd[0], cmd[1:]...).Output()
		first := strings.TrimSpace(strings.SplitN(string(out), "\n", 2)[0])
		if first == "unsat" && !strings.Contains(string(out), "(error") {
			return Unsat
		}
	}
	return Unknown
}

func (w *Worker) dumpQuery(label string, negated *Term) {
	// bounded number of query dumps per harness
	hr := w.curHarn
	hr.mu.Lock()
	n := hr.res.Asserts
	hr.mu.Unlock()
	if n > 40 {
		return
	}
	f, err := os.Create(fmt.Sprintf("%s/%s_%04d.smt2", w.eng.dumpQueries, hr.name, n))
	if err != nil {
		return
	}
	defer f.Close()
	fmt.Fprintf(f, "; harness %s, assertion %q: expected unsat\n", hr.name, label)
	em := &emitter{seen: map[int]bool{}, tc: w.tc}
	for _, t := range append(append([]*Term{}, w.pcTerms...), negated) {
		em.emit(f, t)
	}
	for _, t := range w.pcTerms {
		fmt.Fprintf(f, "(assert %s)\n", t.ref())
	}
	fmt.Fprintf(f, "(assert %s)\n(check-sat)\n", negated.ref())
}

type emitter struct {
	seen map[int]bool
	ufs  map[string]bool
	tc   *TermCtx
}

func (e *emitter) emit(f *os.File, t *Term) {
	if t.Op == OConst || e.seen[t.ID] {
		return
	}
	for _, a := range t.Args {
		e.emit(f, a)
	}
	e.seen[t.ID] = true
	switch t.Op {
	case OVar:
		fmt.Fprintf(f, "(declare-const |%s| %s)\n", t.Name, t.S)
	case OApply:
		if e.ufs == nil {
			e.ufs = map[string]bool{}
		}
		if !e.ufs[t.Name] {
			fmt.Fprintln(f, e.tc.ufs[t.Name])
			e.ufs[t.Name] = true
		}
		fmt.Fprintf(f, "(define-fun t%d () %s %s)\n", t.ID, t.S, t.body())
	default:
		fmt.Fprintf(f, "(define-fun t%d () %s %s)\n", t.ID, t.S, t.body())
	}
}

// newBigCell allocates a math/big.Int whose content is v (nil, *big.Int or *Term).
func (w *Worker) newBigCell(v value) *value {
	s := zero(w.eng.bigIntType).(structure)
	if v != nil {
		s[0] = v
	}
	cell := new(value)
	*cell = s
	return cell
}

// ---- top-level exploration ----

func (eng *Engine) Explore(name string, cfg map[string]int64, nworkers, maxPaths, sampleMax int) *HarnessResult {
	fn := eng.harnessPkg.Func(name)
	if fn == nil {
		return &HarnessResult{Harness: name, Inconclusive: []string{"harness function not found: " + name}}
	}
	hr := &harnessRun{name: name, fn: fn, cfg: cfg, maxPaths: maxPaths, sampleMax: sampleMax}
	hr.cond = sync.NewCond(&hr.mu)
	hr.res = &HarnessResult{Harness: name, Cfg: cfg, Covers: map[string]int{}, Intrinsics: map[string]int{}, Funcs: map[string]int{}}
	hr.queue = [][]uint64{{}}
	start := time.Now()
	var wg sync.WaitGroup
	for i := 0; i < nworkers; i++ {
		wg.Add(1)
		go func(id int) {
			defer wg.Done()
			w, err := eng.worker(id)
			if err != nil {
				hr.noteInconclusive("worker start failed: " + err.Error())
				return
			}
			for {
				p, ok := hr.take()
				if !ok {
					break
				}
				w.runPath(hr, p)
				hr.done()
			}
			hr.mu.Lock()
			hr.res.Sat += w.sol.NSat
			hr.res.Unsat += w.sol.NUnsat
			hr.res.Unknown += w.sol.NUnknown
			hr.res.SolverSec += w.sol.SolveTime.Seconds()
			w.sol.NSat, w.sol.NUnsat, w.sol.NUnknown, w.sol.SolveTime = 0, 0, 0, 0
			for k, v := range w.intrinsicHits {
				hr.res.Intrinsics[k] += v
			}
			w.intrinsicHits = map[string]int{}
			for f, v := range w.funcsSeen {
				hr.res.Funcs[f.String()] += v
			}
			w.funcsSeen = map[*ssa.Function]int{}
			for _, e := range w.sol.Errors {
				if len(hr.res.SolverErrors) < 10 {
					hr.res.SolverErrors = append(hr.res.SolverErrors, e)
				}
			}
			w.sol.Errors = nil
			hr.mu.Unlock()
		}(i)
	}
	stopProgress := make(chan struct{})
	go func() {
		tk := time.NewTicker(30 * time.Second)
		defer tk.Stop()
		for {
			select {
			case <-stopProgress:
				return
			case <-tk.C:
				hr.mu.Lock()
				fmt.Fprintf(os.Stderr, "  ... %s %v: %d paths done, %d queued, %d forks, %.0fs\n", name, cfg, hr.res.Paths, len(hr.queue), hr.res.Decisions, time.Since(start).Seconds())
				hr.mu.Unlock()
			}
		}
	}()
	wg.Wait()
	close(stopProgress)
	hr.res.WallSec = time.Since(start).Seconds()
	if len(hr.res.SolverErrors) > 0 {
		hr.res.Inconclusive = append(hr.res.Inconclusive, "solver reported (error ...) lines")
	}
	if hr.res.AssertUnknown > 0 {
		hr.noteInconclusive(fmt.Sprintf("%d assertion queries returned unknown", hr.res.AssertUnknown))
	}
	return hr.res
}

// worker returns the (cached) worker with the given id, initialised.
func (eng *Engine) worker(id int) (*Worker, error) {
	eng.wmu.Lock()
	w := eng.workers[id]
	eng.wmu.Unlock()
	if w != nil {
		return w, nil
	}
	w = &Worker{eng: eng, id: id, tc: NewTermCtx(),
		globals: map[*ssa.Global]*value{}, initialised: map[*ssa.Package]bool{}, initFailed: map[*ssa.Package]string{},
		gWritten: map[*ssa.Global]bool{}, intrinsicHits: map[string]int{}, funcsSeen: map[*ssa.Function]int{}, inputSeen: map[string]*Term{}}
	sol, err := NewSolver(w.tc, eng.solverBin, eng.solverTimeoutMs)
	if err != nil {
		return nil, err
	}
	w.sol = sol
	if eng.solverLog != "" && id == 0 {
		f, _ := os.Create(eng.solverLog)
		sol.log = f
	}
	w.runInit()
	w.undoOn = true
	eng.wmu.Lock()
	eng.workers[id] = w
	eng.wmu.Unlock()
	return w, nil
}

var _ = strings.Join
var _ = types.Typ
var _ = big.NewInt
