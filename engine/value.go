package main

// Interpreter values. Adapted in structure from golang.org/x/tools/go/ssa/interp
// (BSD-3-Clause, The Go Authors), with symbolic scalars added.
//
// Dynamic representations:
//   bool | *Term(Bool)          booleans
//   uint64 | *Term(BV w)        every integer kind; concrete values hold the low w bits
//   float64                     float32/float64 (concrete only)
//   complex128                  complex (concrete only)
//   string | *symString         strings; symString has concrete length, symbolic bytes
//   *value                      pointers
//   []value                     slices
//   array, structure, tuple     aggregates
//   iface                       interfaces
//   *omap                       maps (insertion ordered association list)
//   *closure, *ssa.Function, *ssa.Builtin   functions
//   iter                        range iterators
//   *chanv                      channels (minimal)
//   poison                      value the engine could not compute (init-time only)

import (
	"fmt"
	"go/types"
	"math/big"
	"strings"

	"golang.org/x/tools/go/ssa"
)

type value any

type tuple []value
type array []value
type structure []value

type iface struct {
	t types.Type
	v value
}

type closure struct {
	Fn  *ssa.Function
	Env []value
}

type symString struct {
	b []value // each uint64 (byte) or *Term BV8
}

type poison struct{ why string }

type chanv struct {
	buf    []value
	cap    int
	closed bool
}

type iter interface {
	next(w *Worker) tuple
}

// bigval is the engine-side content of a math/big.Int (stored in field 0 of the struct).
//   nil / false  => 0
//   *big.Int     => concrete (treated as immutable)
//   *Term(Int)   => symbolic

// unsupported aborts the current path as "engine cannot decide".
type unsupportedErr struct{ msg string }

func unsupported(format string, args ...any) {
	panic(unsupportedErr{fmt.Sprintf(format, args...)})
}

// targetPanic is a Go panic in the interpreted program.
type targetPanic struct {
	v     value
	where string
}

// pathEnd terminates the current path (assume false, infeasible, done early).
type pathEnd struct{ reason string }

// ---- type helpers ----

func intInfo(t types.Type) (w int, signed bool, ok bool) {
	b, isB := t.Underlying().(*types.Basic)
	if !isB {
		return 0, false, false
	}
	switch b.Kind() {
	case types.Int, types.Int64, types.UntypedInt:
		return 64, true, true
	case types.Int8:
		return 8, true, true
	case types.Int16:
		return 16, true, true
	case types.Int32, types.UntypedRune:
		return 32, true, true
	case types.Uint, types.Uint64, types.Uintptr:
		return 64, false, true
	case types.Uint8:
		return 8, false, true
	case types.Uint16:
		return 16, false, true
	case types.Uint32:
		return 32, false, true
	}
	return 0, false, false
}

func isFloat(t types.Type) bool {
	b, ok := t.Underlying().(*types.Basic)
	return ok && b.Info()&types.IsFloat != 0
}

func isString(t types.Type) bool {
	b, ok := t.Underlying().(*types.Basic)
	return ok && b.Info()&types.IsString != 0
}

func isBoolT(t types.Type) bool {
	b, ok := t.Underlying().(*types.Basic)
	return ok && b.Info()&types.IsBoolean != 0
}

func deref(t types.Type) types.Type {
	if p, ok := t.Underlying().(*types.Pointer); ok {
		return p.Elem()
	}
	panic(fmt.Sprintf("deref: not a pointer: %v", t))
}

// zero returns a new zero value of type t.
func zero(t types.Type) value {
	switch t := t.(type) {
	case *types.Basic:
		if t.Info()&types.IsUntyped != 0 && t.Kind() != types.UntypedNil {
			t = types.Default(t).(*types.Basic)
		}
		switch {
		case t.Kind() == types.UntypedNil:
			return iface{}
		case t.Info()&types.IsBoolean != 0:
			return false
		case t.Info()&types.IsInteger != 0:
			return uint64(0)
		case t.Info()&types.IsFloat != 0:
			return float64(0)
		case t.Info()&types.IsComplex != 0:
			return complex128(0)
		case t.Info()&types.IsString != 0:
			return ""
		case t.Kind() == types.UnsafePointer:
			return (*value)(nil)
		}
		panic(fmt.Sprint("zero for unexpected basic type: ", t))
	case *types.Pointer:
		return (*value)(nil)
	case *types.Array:
		a := make(array, t.Len())
		for i := range a {
			a[i] = zero(t.Elem())
		}
		return a
	case *types.Named:
		return zero(t.Underlying())
	case *types.Alias:
		return zero(types.Unalias(t))
	case *types.Interface:
		return iface{}
	case *types.Slice:
		return []value(nil)
	case *types.Struct:
		s := make(structure, t.NumFields())
		for i := range s {
			s[i] = zero(t.Field(i).Type())
		}
		return s
	case *types.Tuple:
		if t.Len() == 1 {
			return zero(t.At(0).Type())
		}
		s := make(tuple, t.Len())
		for i := range s {
			s[i] = zero(t.At(i).Type())
		}
		return s
	case *types.Chan:
		return (*chanv)(nil)
	case *types.Map:
		return (*omap)(nil)
	case *types.Signature:
		return (*ssa.Function)(nil)
	case *types.TypeParam:
		panic("zero of type parameter (generic function not instantiated)")
	}
	panic(fmt.Sprint("zero: unexpected ", t))
}

// copyVal returns an unaliased copy of aggregate values (struct/array); others as is.
func copyVal(v value) value {
	switch v := v.(type) {
	case structure:
		a := make(structure, len(v))
		for i := range v {
			a[i] = copyVal(v[i])
		}
		return a
	case array:
		a := make(array, len(v))
		for i := range v {
			a[i] = copyVal(v[i])
		}
		return a
	}
	return v
}

// ---- maps ----

type mentry struct {
	key value
	val value
}

type omap struct {
	keyType types.Type
	ents    []*mentry
	index   map[string]int // canonical concrete key -> position in ents
	nsym    int            // number of entries with symbolic keys
}

func newOmap(kt types.Type) *omap {
	return &omap{keyType: kt, index: map[string]int{}}
}

func (m *omap) length() int {
	if m == nil {
		return 0
	}
	return len(m.ents)
}

// canonKey returns a canonical string for a fully concrete key, or ok=false.
func canonKey(v value) (string, bool) {
	var sb strings.Builder
	if !writeCanon(&sb, v) {
		return "", false
	}
	return sb.String(), true
}

func writeCanon(sb *strings.Builder, v value) bool {
	switch v := v.(type) {
	case bool:
		if v {
			sb.WriteString("T")
		} else {
			sb.WriteString("F")
		}
	case uint64:
		fmt.Fprintf(sb, "i%d;", v)
	case float64:
		fmt.Fprintf(sb, "f%v;", v)
	case string:
		fmt.Fprintf(sb, "s%d:%s;", len(v), v)
	case *value:
		fmt.Fprintf(sb, "p%p;", v)
	case *chanv:
		fmt.Fprintf(sb, "c%p;", v)
	case array:
		sb.WriteString("[")
		for _, e := range v {
			if !writeCanon(sb, e) {
				return false
			}
		}
		sb.WriteString("]")
	case structure:
		sb.WriteString("{")
		for _, e := range v {
			if !writeCanon(sb, e) {
				return false
			}
		}
		sb.WriteString("}")
	case iface:
		if v.t == nil {
			sb.WriteString("nil;")
		} else {
			fmt.Fprintf(sb, "I<%s>", v.t.String())
			if !writeCanon(sb, v.v) {
				return false
			}
		}
	case *Term, *symString:
		return false
	case *big.Int:
		fmt.Fprintf(sb, "B%s;", v.String())
	default:
		return false
	}
	return true
}

// ---- printing (debug) ----

func toString(v value) string {
	var sb strings.Builder
	writeValue(&sb, v, 0)
	return sb.String()
}

func writeValue(sb *strings.Builder, v value, depth int) {
	if depth > 6 {
		sb.WriteString("...")
		return
	}
	switch v := v.(type) {
	case nil:
		sb.WriteString("<nil>")
	case bool, uint64, float64, complex128, string:
		fmt.Fprintf(sb, "%v", v)
	case *Term:
		sb.WriteString(v.String())
	case *symString:
		sb.WriteString("symstr[")
		for i, b := range v.b {
			if i > 0 {
				sb.WriteByte(' ')
			}
			writeValue(sb, b, depth+1)
		}
		sb.WriteString("]")
	case *omap:
		sb.WriteString("map[")
		if v != nil {
			for i, e := range v.ents {
				if i > 0 {
					sb.WriteByte(' ')
				}
				writeValue(sb, e.key, depth+1)
				sb.WriteByte(':')
				writeValue(sb, e.val, depth+1)
			}
		}
		sb.WriteString("]")
	case *value:
		if v == nil {
			sb.WriteString("<nilptr>")
		} else {
			fmt.Fprintf(sb, "&")
			writeValue(sb, *v, depth+1)
		}
	case iface:
		if v.t == nil {
			sb.WriteString("nil-iface")
			return
		}
		fmt.Fprintf(sb, "(%s, ", v.t)
		writeValue(sb, v.v, depth+1)
		sb.WriteString(")")
	case structure:
		sb.WriteString("{")
		for i, e := range v {
			if i > 0 {
				sb.WriteByte(' ')
			}
			writeValue(sb, e, depth+1)
		}
		sb.WriteString("}")
	case array:
		sb.WriteString("[")
		for i, e := range v {
			if i > 0 {
				sb.WriteByte(' ')
			}
			if i > 40 {
				sb.WriteString("...")
				break
			}
			writeValue(sb, e, depth+1)
		}
		sb.WriteString("]")
	case []value:
		sb.WriteString("[]{")
		for i, e := range v {
			if i > 0 {
				sb.WriteByte(' ')
			}
			if i > 40 {
				sb.WriteString("...")
				break
			}
			writeValue(sb, e, depth+1)
		}
		sb.WriteString("}")
	case tuple:
		sb.WriteString("(")
		for i, e := range v {
			if i > 0 {
				sb.WriteString(", ")
			}
			writeValue(sb, e, depth+1)
		}
		sb.WriteString(")")
	case *ssa.Function:
		if v == nil {
			sb.WriteString("nil-func")
		} else {
			sb.WriteString(v.String())
		}
	case *closure:
		sb.WriteString("closure:" + v.Fn.String())
	case *big.Int:
		sb.WriteString("big:" + v.String())
	case poison:
		sb.WriteString("poison(" + v.why + ")")
	default:
		fmt.Fprintf(sb, "<%T>", v)
	}
}
