package main

// math/big.Int as SMT Int. The engine keeps the number in field 0 of the
// big.Int struct: false => 0, *big.Int => concrete (immutable), *Term => symbolic.

import (
	"fmt"
	"go/types"
	"math/big"

	"golang.org/x/tools/go/ssa"
)

func (w *Worker) bigCell(p value) structure {
	pv, _ := p.(*value)
	if pv == nil {
		panic(targetPanic{v: runtimeErr("invalid memory address or nil pointer dereference (nil *big.Int)")})
	}
	s, ok := (*pv).(structure)
	if !ok {
		unsupported("big.Int receiver is %T", *pv)
	}
	return s
}

func (w *Worker) getBig(p value) value {
	s := w.bigCell(p)
	switch v := s[0].(type) {
	case bool:
		return new(big.Int)
	case *big.Int, *Term:
		return v
	case poison:
		unsupported("poison big.Int: %s", v.why)
	}
	panic(fmt.Sprintf("getBig: %T", s[0]))
}

func (w *Worker) setBig(p value, v value) {
	s := w.bigCell(p)
	if t, ok := v.(*Term); ok && t.IsConst() {
		v = new(big.Int).Set(t.Big)
	}
	w.set(&s[0], v)
}

func (w *Worker) bigTerm(v value) *Term {
	switch v := v.(type) {
	case *big.Int:
		return w.tc.IntConst(v)
	case *Term:
		return v
	}
	panic(fmt.Sprintf("bigTerm: %T", v))
}

func bothConc(x, y value) (*big.Int, *big.Int, bool) {
	a, ok1 := x.(*big.Int)
	b, ok2 := y.(*big.Int)
	return a, b, ok1 && ok2
}

// bigSign returns the sign as an int value (-1, 0, 1), possibly symbolic.
func (w *Worker) bigSign(x value) value {
	if c, ok := x.(*big.Int); ok {
		return uint64(int64(c.Sign()))
	}
	t := x.(*Term)
	z := w.tc.IntConst64(0)
	return simp(w.tc.Ite(w.tc.IntCmp(OIntLt, t, z), w.tc.BVConst(64, ^uint64(0)),
		w.tc.Ite(w.tc.Eq(t, z), w.tc.BVConst(64, 0), w.tc.BVConst(64, 1))))
}

func (w *Worker) bigCmp(x, y value) value {
	if a, b, ok := bothConc(x, y); ok {
		return uint64(int64(a.Cmp(b)))
	}
	xt, yt := w.bigTerm(x), w.bigTerm(y)
	return simp(w.tc.Ite(w.tc.IntCmp(OIntLt, xt, yt), w.tc.BVConst(64, ^uint64(0)),
		w.tc.Ite(w.tc.Eq(xt, yt), w.tc.BVConst(64, 0), w.tc.BVConst(64, 1))))
}

// bigQuo is truncated division (Go's Quo); bigRem its remainder.
func (w *Worker) bigQuoRem(x, y value, euclid bool) (q, r value) {
	if a, b, ok := bothConc(x, y); ok {
		if b.Sign() == 0 {
			panic(targetPanic{v: runtimeErr("division by zero")})
		}
		if euclid {
			qq, rr := new(big.Int).DivMod(a, b, new(big.Int))
			return qq, rr
		}
		qq, rr := new(big.Int).QuoRem(a, b, new(big.Int))
		return qq, rr
	}
	xt, yt := w.bigTerm(x), w.bigTerm(y)
	z := w.tc.IntConst64(0)
	if w.decideBool(w.tc.Eq(yt, z), "big division by zero") {
		panic(targetPanic{v: runtimeErr("division by zero")})
	}
	if euclid {
		return simp(w.tc.IntBin(OIntDiv, xt, yt)), simp(w.tc.IntBin(OIntMod, xt, yt))
	}
	// truncated: if both operands are known non-negative use div/mod directly
	neg := w.tc.Or(w.tc.IntCmp(OIntLt, xt, z), w.tc.IntCmp(OIntLt, yt, z))
	if w.sol.CheckWith(neg) == Unsat {
		return simp(w.tc.IntBin(OIntDiv, xt, yt)), simp(w.tc.IntBin(OIntMod, xt, yt))
	}
	ax, ay := w.tc.IntAbs(xt), w.tc.IntAbs(yt)
	qa := w.tc.IntBin(OIntDiv, ax, ay)
	ra := w.tc.IntBin(OIntMod, ax, ay)
	sameSign := w.tc.Eq(w.tc.IntCmp(OIntLt, xt, z), w.tc.IntCmp(OIntLt, yt, z))
	qt := w.tc.Ite(sameSign, qa, w.tc.IntNeg(qa))
	rt := w.tc.Ite(w.tc.IntCmp(OIntLt, xt, z), w.tc.IntNeg(ra), ra)
	return simp(qt), simp(rt)
}

func (w *Worker) bigArith(op Op, x, y value) value {
	if a, b, ok := bothConc(x, y); ok {
		switch op {
		case OIntAdd:
			return new(big.Int).Add(a, b)
		case OIntSub:
			return new(big.Int).Sub(a, b)
		case OIntMul:
			return new(big.Int).Mul(a, b)
		}
	}
	return simp(w.tc.IntBin(op, w.bigTerm(x), w.bigTerm(y)))
}

// fitsRange: lo <= x <= hi as bool value.
func (w *Worker) bigInRange(x value, lo, hi *big.Int) value {
	if c, ok := x.(*big.Int); ok {
		return c.Cmp(lo) >= 0 && c.Cmp(hi) <= 0
	}
	t := x.(*Term)
	return simp(w.tc.And(w.tc.IntCmp(OIntLe, w.tc.IntConst(lo), t), w.tc.IntCmp(OIntLe, t, w.tc.IntConst(hi))))
}

var (
	maxU64 = new(big.Int).SetUint64(^uint64(0))
	minI64 = big.NewInt(-1 << 63)
	maxI64 = big.NewInt(1<<63 - 1)
	two64  = new(big.Int).Lsh(big.NewInt(1), 64)
)

func registerBigIntrinsics(eng *Engine) {
	in := eng.intrinsics
	B := "(*math/big.Int)."
	bin := func(op Op) intrinsicFn {
		return func(w *Worker, fr *frame, fn *ssa.Function, args []value) value {
			x, y := w.getBig(args[1]), w.getBig(args[2])
			w.setBig(args[0], w.bigArith(op, x, y))
			return args[0]
		}
	}
	in[B+"Add"] = bin(OIntAdd)
	in[B+"Sub"] = bin(OIntSub)
	in[B+"Mul"] = bin(OIntMul)
	in[B+"Quo"] = func(w *Worker, fr *frame, fn *ssa.Function, args []value) value {
		q, _ := w.bigQuoRem(w.getBig(args[1]), w.getBig(args[2]), false)
		w.setBig(args[0], q)
		return args[0]
	}
	in[B+"Rem"] = func(w *Worker, fr *frame, fn *ssa.Function, args []value) value {
		_, r := w.bigQuoRem(w.getBig(args[1]), w.getBig(args[2]), false)
		w.setBig(args[0], r)
		return args[0]
	}
	in[B+"Div"] = func(w *Worker, fr *frame, fn *ssa.Function, args []value) value {
		q, _ := w.bigQuoRem(w.getBig(args[1]), w.getBig(args[2]), true)
		w.setBig(args[0], q)
		return args[0]
	}
	in[B+"Mod"] = func(w *Worker, fr *frame, fn *ssa.Function, args []value) value {
		_, r := w.bigQuoRem(w.getBig(args[1]), w.getBig(args[2]), true)
		w.setBig(args[0], r)
		return args[0]
	}
	in[B+"QuoRem"] = func(w *Worker, fr *frame, fn *ssa.Function, args []value) value {
		q, r := w.bigQuoRem(w.getBig(args[1]), w.getBig(args[2]), false)
		w.setBig(args[0], q)
		w.setBig(args[3], r)
		return tuple{args[0], args[3]}
	}
	in[B+"Set"] = func(w *Worker, fr *frame, fn *ssa.Function, args []value) value {
		w.setBig(args[0], w.getBig(args[1]))
		return args[0]
	}
	in[B+"Neg"] = func(w *Worker, fr *frame, fn *ssa.Function, args []value) value {
		x := w.getBig(args[1])
		if c, ok := x.(*big.Int); ok {
			w.setBig(args[0], new(big.Int).Neg(c))
		} else {
			w.setBig(args[0], simp(w.tc.IntNeg(x.(*Term))))
		}
		return args[0]
	}
	in[B+"Abs"] = func(w *Worker, fr *frame, fn *ssa.Function, args []value) value {
		x := w.getBig(args[1])
		if c, ok := x.(*big.Int); ok {
			w.setBig(args[0], new(big.Int).Abs(c))
		} else {
			w.setBig(args[0], simp(w.tc.IntAbs(x.(*Term))))
		}
		return args[0]
	}
	in[B+"SetUint64"] = func(w *Worker, fr *frame, fn *ssa.Function, args []value) value {
		switch v := args[1].(type) {
		case uint64:
			w.setBig(args[0], new(big.Int).SetUint64(v))
		case *Term:
			w.setBig(args[0], simp(w.tc.Bv2Int(v)))
		}
		return args[0]
	}
	in[B+"SetInt64"] = func(w *Worker, fr *frame, fn *ssa.Function, args []value) value {
		switch v := args[1].(type) {
		case uint64:
			w.setBig(args[0], big.NewInt(int64(v)))
		case *Term:
			// signed: bv2nat(v) - 2^64 if negative
			n := w.tc.Bv2Int(v)
			neg := w.tc.BvCmp(OBvSlt, v, w.tc.BVConst(64, 0))
			w.setBig(args[0], simp(w.tc.Ite(neg, w.tc.IntBin(OIntSub, n, w.tc.IntConst(two64)), n)))
		}
		return args[0]
	}
	in["math/big.NewInt"] = func(w *Worker, fr *frame, fn *ssa.Function, args []value) value {
		cell := w.newBigCell(nil)
		eng.intrinsics[B+"SetInt64"](w, fr, fn, []value{cell, args[0]})
		return cell
	}
	in[B+"Cmp"] = func(w *Worker, fr *frame, fn *ssa.Function, args []value) value {
		return w.bigCmp(w.getBig(args[0]), w.getBig(args[1]))
	}
	in[B+"CmpAbs"] = func(w *Worker, fr *frame, fn *ssa.Function, args []value) value {
		abs := func(v value) value {
			if c, ok := v.(*big.Int); ok {
				return new(big.Int).Abs(c)
			}
			return simp(w.tc.IntAbs(v.(*Term)))
		}
		return w.bigCmp(abs(w.getBig(args[0])), abs(w.getBig(args[1])))
	}
	in[B+"Sign"] = func(w *Worker, fr *frame, fn *ssa.Function, args []value) value {
		return w.bigSign(w.getBig(args[0]))
	}
	in[B+"IsUint64"] = func(w *Worker, fr *frame, fn *ssa.Function, args []value) value {
		return w.bigInRange(w.getBig(args[0]), new(big.Int), maxU64)
	}
	in[B+"IsInt64"] = func(w *Worker, fr *frame, fn *ssa.Function, args []value) value {
		return w.bigInRange(w.getBig(args[0]), minI64, maxI64)
	}
	in[B+"Uint64"] = func(w *Worker, fr *frame, fn *ssa.Function, args []value) value {
		x := w.getBig(args[0])
		if c, ok := x.(*big.Int); ok {
			return c.Uint64()
		}
		// low 64 bits of |x| (Go semantics); for non-negative x this is int2bv
		t := x.(*Term)
		inRange := w.tc.And(w.tc.IntCmp(OIntLe, w.tc.IntConst64(0), t), w.tc.IntCmp(OIntLe, t, w.tc.IntConst(maxU64)))
		if w.sol.CheckWith(w.tc.Not(inRange)) == Unsat {
			return t // proven in range on this path: keep as a mathematical integer
		}
		return simp(w.tc.Int2Bv(w.tc.IntAbs(t), 64))
	}
	in[B+"Int64"] = func(w *Worker, fr *frame, fn *ssa.Function, args []value) value {
		x := w.getBig(args[0])
		if c, ok := x.(*big.Int); ok {
			return uint64(c.Int64())
		}
		t := x.(*Term)
		inRange := w.tc.And(w.tc.IntCmp(OIntLe, w.tc.IntConst(minI64), t), w.tc.IntCmp(OIntLe, t, w.tc.IntConst(maxI64)))
		if w.sol.CheckWith(w.tc.Not(inRange)) == Unsat {
			return t // proven in range on this path: keep as a mathematical integer
		}
		return simp(w.tc.Int2Bv(t, 64))
	}
	in[B+"String"] = func(w *Worker, fr *frame, fn *ssa.Function, args []value) value {
		if p, _ := args[0].(*value); p == nil {
			return "<nil>"
		}
		x := w.getBig(args[0])
		if c, ok := x.(*big.Int); ok {
			return c.String()
		}
		return "<symbolic big.Int>"
	}
	in[B+"Text"] = in[B+"String"]
	in[B+"BitLen"] = func(w *Worker, fr *frame, fn *ssa.Function, args []value) value {
		x := w.getBig(args[0])
		if c, ok := x.(*big.Int); ok {
			return uint64(c.BitLen())
		}
		unsupported("BitLen of symbolic big.Int")
		return nil
	}
	in[B+"Bytes"] = func(w *Worker, fr *frame, fn *ssa.Function, args []value) value {
		x := w.getBig(args[0])
		if c, ok := x.(*big.Int); ok {
			b := c.Bytes()
			r := make([]value, len(b))
			for i := range b {
				r[i] = uint64(b[i])
			}
			return r
		}
		unsupported("Bytes of symbolic big.Int")
		return nil
	}
	in[B+"SetBytes"] = func(w *Worker, fr *frame, fn *ssa.Function, args []value) value {
		b := args[1].([]value)
		buf := make([]byte, len(b))
		for i, x := range b {
			c, ok := x.(uint64)
			if !ok {
				unsupported("SetBytes with symbolic bytes")
			}
			buf[i] = byte(c)
		}
		w.setBig(args[0], new(big.Int).SetBytes(buf))
		return args[0]
	}
	in[B+"SetString"] = func(w *Worker, fr *frame, fn *ssa.Function, args []value) value {
		s, ok := args[1].(string)
		if !ok {
			unsupported("SetString with symbolic string")
		}
		base := int(int64(args[2].(uint64)))
		v, ok2 := new(big.Int).SetString(s, base)
		if !ok2 {
			return tuple{(*value)(nil), false}
		}
		w.setBig(args[0], v)
		return tuple{args[0], true}
	}
	in[B+"Sqrt"] = func(w *Worker, fr *frame, fn *ssa.Function, args []value) value {
		x := w.getBig(args[1])
		if c, ok := x.(*big.Int); ok {
			if c.Sign() < 0 {
				panic(targetPanic{v: runtimeErr("square root of negative number")})
			}
			w.setBig(args[0], new(big.Int).Sqrt(c))
			return args[0]
		}
		t := x.(*Term)
		z := w.tc.IntConst64(0)
		if w.decideBool(w.tc.IntCmp(OIntLt, t, z), "sqrt of negative") {
			panic(targetPanic{v: runtimeErr("square root of negative number")})
		}
		w.fresh++
		r := w.tc.Var(fmt.Sprintf("sqrt!%d", w.fresh), IntSort)
		one := w.tc.IntConst64(1)
		r1 := w.tc.IntBin(OIntAdd, r, one)
		w.assertPC(w.tc.IntCmp(OIntLe, z, r))
		w.assertPC(w.tc.IntCmp(OIntLe, w.tc.IntBin(OIntMul, r, r), t))
		w.assertPC(w.tc.IntCmp(OIntLt, t, w.tc.IntBin(OIntMul, r1, r1)))
		w.setBig(args[0], r)
		return args[0]
	}
	in[B+"Exp"] = func(w *Worker, fr *frame, fn *ssa.Function, args []value) value {
		x, y := w.getBig(args[1]), w.getBig(args[2])
		var m *big.Int
		if p, _ := args[3].(*value); p != nil {
			mv := w.getBig(args[3])
			mc, ok := mv.(*big.Int)
			if !ok {
				unsupported("Exp with symbolic modulus")
			}
			m = mc
		}
		a, b, ok := bothConc(x, y)
		if !ok {
			unsupported("Exp with symbolic operands")
		}
		w.setBig(args[0], new(big.Int).Exp(a, b, m))
		return args[0]
	}
	in[B+"MarshalText"] = func(w *Worker, fr *frame, fn *ssa.Function, args []value) value {
		x := w.getBig(args[0])
		c, ok := x.(*big.Int)
		if !ok {
			unsupported("MarshalText of symbolic big.Int")
		}
		return tuple{strBytesCopy(c.String()), iface{}}
	}
	// any other math/big entry point is unsupported
	eng.blockedPkgs["math/big"] = true
}

func strBytesCopy(s string) []value {
	r := make([]value, len(s))
	for i := 0; i < len(s); i++ {
		r[i] = uint64(s[i])
	}
	return r
}

var _ = types.Typ
