package main

// Models of cryptographic primitives that are not interpreted:
//  - streaming SHA-512/256 and SHA-256 hashers (Write/Sum over the injective hash model)
//  - ed25519 verification: a signature verifies only for (public key, message)
//    pairs that the harness declared honestly signed (symx.HonestSignature):
//    unforgeability is built into the model.

import (
	"fmt"
	"go/types"

	"golang.org/x/tools/go/ssa"
)

type hashState struct {
	fn  string
	buf []value
}

type sigRec struct {
	pk, msg, sig []value
}

func init() {
	moreRegs = append(moreRegs, func(eng *Engine) {
		in := eng.intrinsics
		mkHasher := func(pkgPath, fn string) intrinsicFn {
			return func(w *Worker, fr *frame, f *ssa.Function, args []value) value {
				p := w.eng.prog.ImportedPackage(pkgPath)
				if p == nil {
					unsupported("package %s not loaded", pkgPath)
				}
				t := p.Type("Digest").Type()
				s := zero(t).(structure)
				s[0] = &hashState{fn: fn}
				cell := new(value)
				*cell = s
				res := f.Signature.Results().At(0).Type()
				if _, isI := res.Underlying().(*types.Interface); isI {
					return iface{t: types.NewPointer(t), v: cell}
				}
				return cell
			}
		}
		in["crypto/sha512.New512_256"] = mkHasher("crypto/internal/fips140/sha512", "sha512_256")
		in["crypto/internal/fips140/sha512.New512_256"] = mkHasher("crypto/internal/fips140/sha512", "sha512_256")
		in["crypto/sha256.New"] = mkHasher("crypto/internal/fips140/sha256", "sha256")
		in["crypto/internal/fips140/sha256.New"] = mkHasher("crypto/internal/fips140/sha256", "sha256")
		state := func(w *Worker, p value) (structure, *hashState) {
			s := (*(p.(*value))).(structure)
			hs, ok := s[0].(*hashState)
			if !ok {
				unsupported("hash state of an unmodelled digest type")
			}
			return s, hs
		}
		for _, pkg := range []string{"crypto/internal/fips140/sha512", "crypto/internal/fips140/sha256"} {
			D := "(*" + pkg + ".Digest)."
			in[D+"Write"] = func(w *Worker, fr *frame, f *ssa.Function, args []value) value {
				s, hs := state(w, args[0])
				data := args[1].([]value)
				nb := make([]value, 0, len(hs.buf)+len(data))
				nb = append(append(nb, hs.buf...), data...)
				w.set(&s[0], &hashState{fn: hs.fn, buf: nb})
				return tuple{uint64(len(data)), iface{}}
			}
			in[D+"Sum"] = func(w *Worker, fr *frame, f *ssa.Function, args []value) value {
				_, hs := state(w, args[0])
				prefix, _ := args[1].([]value)
				out := append(append([]value{}, prefix...), w.hashBytes(hs.fn, hs.buf)...)
				return out
			}
			in[D+"Reset"] = func(w *Worker, fr *frame, f *ssa.Function, args []value) value {
				s, hs := state(w, args[0])
				w.set(&s[0], &hashState{fn: hs.fn})
				return nil
			}
			in[D+"Size"] = func(w *Worker, fr *frame, f *ssa.Function, args []value) value { return uint64(32) }
			in[D+"BlockSize"] = func(w *Worker, fr *frame, f *ssa.Function, args []value) value {
				_, hs := state(w, args[0])
				if hs.fn == "sha256" {
					return uint64(64)
				}
				return uint64(128)
			}
		}
		// cSHAKE (crypto/sha3.SHAKE as used by oasis-core's TupleHash): NewCSHAKE128/256(N, S), Write, Read of
		// exactly 32 bytes. The state is the injective encoding len(N) N len(S) S followed by the written bytes;
		// Read gives the modelled (injective) digest of it, the real function when everything is concrete.
		mkShake := func(fn string) intrinsicFn {
			return func(w *Worker, fr *frame, f *ssa.Function, args []value) value {
				p := w.eng.prog.ImportedPackage("crypto/sha3")
				if p == nil {
					unsupported("package crypto/sha3 not loaded")
				}
				t := p.Type("SHAKE").Type()
				s := zero(t).(structure)
				N, _ := args[0].([]value)
				S, _ := args[1].([]value)
				buf := []value{uint64(len(N) >> 8), uint64(len(N) & 0xff)}
				buf = append(buf, N...)
				buf = append(buf, uint64(len(S)>>8), uint64(len(S)&0xff))
				buf = append(buf, S...)
				s[0] = &hashState{fn: fn, buf: buf}
				cell := new(value)
				*cell = s
				return cell
			}
		}
		in["crypto/sha3.NewCSHAKE128"] = mkShake("cshake128")
		in["crypto/sha3.NewCSHAKE256"] = mkShake("cshake256")
		in["(*crypto/sha3.SHAKE).Write"] = func(w *Worker, fr *frame, f *ssa.Function, args []value) value {
			s, hs := state(w, args[0])
			data := args[1].([]value)
			nb := make([]value, 0, len(hs.buf)+len(data))
			nb = append(append(nb, hs.buf...), data...)
			w.set(&s[0], &hashState{fn: hs.fn, buf: nb})
			return tuple{uint64(len(data)), iface{}}
		}
		in["(*crypto/sha3.SHAKE).Read"] = func(w *Worker, fr *frame, f *ssa.Function, args []value) value {
			_, hs := state(w, args[0])
			out := args[1].([]value)
			if len(out) != 32 {
				unsupported("cSHAKE model: output of %d bytes (only 32 modelled)", len(out))
			}
			d := w.hashBytes(hs.fn, hs.buf)
			for i := range out {
				w.set(&out[i], d[i])
			}
			return tuple{uint64(len(out)), iface{}}
		}
		// ed25519 verification (curve25519-voi caching verifier used by oasis-core signature.PublicKey.Verify)
		in["(*github.com/oasisprotocol/curve25519-voi/primitives/ed25519/extra/cache.Verifier).VerifyWithOptions"] = func(w *Worker, fr *frame, f *ssa.Function, args []value) value {
			pk, msg, sig := args[1].([]value), args[2].([]value), args[3].([]value)
			return w.verifySig(pk, msg, sig)
		}
		// batch verification: the real BatchVerifier struct, entries counted in field 0 and
		// "some signature does not verify" accumulated in field 1 (anyInvalid); VerifyBatchOnly
		// = non-empty batch and every entry verifies (the real one is probabilistic with
		// negligible error and rejects cofactor-less options, which oasis-core never sets)
		const BV = "github.com/oasisprotocol/curve25519-voi/primitives/ed25519"
		newBatch := func(w *Worker, fr *frame, f *ssa.Function, args []value) value {
			p := w.eng.prog.ImportedPackage(BV)
			cell := new(value)
			*cell = zero(p.Type("BatchVerifier").Type())
			return cell
		}
		in[BV+".NewBatchVerifierWithCapacity"] = newBatch
		in[BV+".NewBatchVerifier"] = newBatch
		batchAdd := func(w *Worker, bvp value, pk, msg, sig []value) value {
			cell := bvp.(*value)
			s := append(structure{}, (*cell).(structure)...)
			ents, _ := s[0].([]value)
			s[0] = append(append([]value{}, ents...), uint64(0))
			bad := w.not(w.verifySig(pk, msg, sig))
			switch old := s[1].(type) {
			case bool:
				if !old {
					s[1] = bad
				}
			case *Term:
				switch b := bad.(type) {
				case bool:
					if b {
						s[1] = true
					}
				case *Term:
					s[1] = simp(w.tc.Or(old, b))
				}
			}
			w.set(cell, s)
			return nil
		}
		in["(*"+BV+"/extra/cache.Verifier).AddWithOptions"] = func(w *Worker, fr *frame, f *ssa.Function, args []value) value {
			return batchAdd(w, args[1], args[2].([]value), args[3].([]value), args[4].([]value))
		}
		in["(*"+BV+".BatchVerifier).AddWithOptions"] = func(w *Worker, fr *frame, f *ssa.Function, args []value) value {
			return batchAdd(w, args[0], args[1].([]value), args[2].([]value), args[3].([]value))
		}
		in["(*"+BV+".BatchVerifier).Add"] = func(w *Worker, fr *frame, f *ssa.Function, args []value) value {
			return batchAdd(w, args[0], args[1].([]value), args[2].([]value), args[3].([]value))
		}
		in["(*"+BV+".BatchVerifier).VerifyBatchOnly"] = func(w *Worker, fr *frame, f *ssa.Function, args []value) value {
			s := (*(args[0].(*value))).(structure)
			ents, _ := s[0].([]value)
			if len(ents) == 0 {
				return false
			}
			return w.not(s[1])
		}
		in["github.com/oasisprotocol/curve25519-voi/primitives/ed25519.VerifyWithOptions"] = func(w *Worker, fr *frame, f *ssa.Function, args []value) value {
			return w.verifySig(args[0].([]value), args[1].([]value), args[2].([]value))
		}
	})
}

func (w *Worker) verifySig(pk, msg, sig []value) value {
	var acc value = false
	for _, r := range w.sigs {
		ok := w.and(w.and(w.bytesEq(pk, r.pk), w.bytesEq(msg, r.msg)), w.bytesEq(sig, r.sig))
		switch ok := ok.(type) {
		case bool:
			if ok {
				return true
			}
		case *Term:
			switch a := acc.(type) {
			case bool:
				acc = ok
				_ = a
			case *Term:
				acc = simp(w.tc.Or(a, ok))
			}
		}
	}
	return acc
}

// honestSignature registers and returns a fresh 64-byte signature by pk over msg.
func (w *Worker) honestSignature(pk, msg []value) []value {
	w.fresh++
	sig := make([]value, 64)
	for i := range sig {
		sig[i] = simp(w.tc.Var(fmt.Sprintf("sig!%d[%d]", w.fresh, i), BV(8)))
	}
	w.sigs = append(w.sigs, sigRec{pk: append([]value{}, pk...), msg: append([]value{}, msg...), sig: sig})
	return sig
}

// Randomness: the HMAC-DRBG and math/rand are not interpreted. Every
// Shuffle / Perm explores ALL permutations (n <= 4) as engine decisions, i.e.
// results hold for every entropy value; determinism in the entropy is the
// statement "same permutation => same result", which holds trivially for code
// that is a function of the permutation.
func init() {
	moreRegs = append(moreRegs, func(eng *Engine) {
		in := eng.intrinsics
		in["github.com/oasisprotocol/oasis-core/go/common/crypto/drbg.New"] = func(w *Worker, fr *frame, f *ssa.Function, args []value) value {
			t := deref(f.Signature.Results().At(0).Type())
			cell := new(value)
			*cell = zero(t)
			return tuple{cell, iface{}}
		}
		in["github.com/oasisprotocol/oasis-core/go/common/crypto/mathrand.New"] = func(w *Worker, fr *frame, f *ssa.Function, args []value) value {
			// a rand.Source64 that is never consulted (Shuffle / Perm are modelled)
			p := w.eng.prog.ImportedPackage("github.com/oasisprotocol/oasis-core/go/common/crypto/mathrand")
			t := p.Type("rngAdapter").Type()
			cell := new(value)
			*cell = zero(t)
			return iface{t: types.NewPointer(t), v: cell}
		}
		perm := func(w *Worker, n int) []int {
			if n > 4 {
				unsupported("random permutation of %d elements (engine explores all permutations only up to 4)", n)
			}
			p := make([]int, n)
			for i := range p {
				p[i] = i
			}
			for i := n - 1; i > 0; i-- {
				j := w.rngChoice(i + 1)
				p[i], p[j] = p[j], p[i]
			}
			return p
		}
		in["(*math/rand.Rand).Perm"] = func(w *Worker, fr *frame, f *ssa.Function, args []value) value {
			n := int(int64(args[1].(uint64)))
			p := perm(w, n)
			out := make([]value, n)
			for i, x := range p {
				out[i] = uint64(x)
			}
			return out
		}
		in["(*math/rand.Rand).Shuffle"] = func(w *Worker, fr *frame, f *ssa.Function, args []value) value {
			n := int(int64(args[1].(uint64)))
			if n > 4 {
				unsupported("random shuffle of %d elements (limit 4)", n)
			}
			for i := n - 1; i > 0; i-- {
				j := w.rngChoice(i + 1)
				w.call(fr, 0, args[2], []value{uint64(i), uint64(j)})
			}
			return nil
		}
	})
}

// CometBFT header hash (reflection-based amino-style encoding + Merkle tree):
// modelled as SHA-256 over an injective serialisation of the header struct.
func init() {
	moreRegs = append(moreRegs, func(eng *Engine) {
		in := eng.intrinsics
		// ABCIResults.Hash: a hash over an injective serialisation of exactly the fields CometBFT
		// includes (Code, Data, GasWanted, GasUsed of every result, in order). The real function is a
		// Merkle tree over protobuf encodings of the same fields.
		in["(github.com/cometbft/cometbft/types.ABCIResults).Hash"] = func(w *Worker, fr *frame, f *ssa.Function, args []value) value {
			rs, _ := args[0].([]value)
			elemPtr := f.Signature.Recv().Type().Underlying().(*types.Slice).Elem()
			st := deref(elemPtr).Underlying().(*types.Struct)
			data := []value{uint64('R'), uint64('e'), uint64('s'), uint64(len(rs))}
			for _, r := range rs {
				p, _ := r.(*value)
				if p == nil {
					unsupported("ABCIResults.Hash model: nil result")
				}
				sv := (*p).(structure)
				for i := 0; i < st.NumFields(); i++ {
					switch st.Field(i).Name() {
					case "Code", "Data", "GasWanted", "GasUsed":
						data = w.serialize(st.Field(i).Type(), sv[i], data, 1)
					}
				}
			}
			return w.hashBytes("sha256", data)
		}
		in["(*github.com/cometbft/cometbft/types.Header).Hash"] = func(w *Worker, fr *frame, f *ssa.Function, args []value) value {
			p, _ := args[0].(*value)
			if p == nil {
				return []value(nil)
			}
			t := deref(f.Signature.Recv().Type())
			st := t.Underlying().(*types.Struct)
			s := (*p).(structure)
			for i := 0; i < st.NumFields(); i++ {
				if st.Field(i).Name() == "ValidatorsHash" {
					if b, _ := s[i].([]value); len(b) == 0 {
						return []value(nil)
					}
				}
			}
			data := w.serialize(t, *p, []value{uint64('H'), uint64('d'), uint64('r')}, 0)
			return w.hashBytes("sha256", data)
		}
	})
}

// rngChoice is one draw of the modelled RNG. In record mode the draws are kept
// on a tape, in replay mode they are read back (symx.RNGRecord / RNGReplay):
// this is how a harness states "same entropy" for two runs.
func (w *Worker) rngChoice(n int) int {
	if w.rngMode == 2 {
		if w.rngPos >= len(w.rngTape) {
			unsupported("RNG replay ran past the recorded draws")
		}
		v := w.rngTape[w.rngPos]
		w.rngPos++
		if v >= n {
			unsupported("RNG replay draw out of range (the two runs diverged in how they use the RNG)")
		}
		return v
	}
	v := w.chooseFree(n, "rng draw")
	if w.rngMode == 1 {
		w.rngTape = append(w.rngTape, v)
	}
	return v
}
