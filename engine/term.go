package main

// Hash-consed SMT term DAG with constant folding.

import (
	"fmt"
	"math/big"
	"strings"
)

type SortKind uint8

const (
	SBool SortKind = iota
	SBV
	SInt
)

type Sort struct {
	K SortKind
	W int // bit width for SBV
}

func (s Sort) String() string {
	switch s.K {
	case SBool:
		return "Bool"
	case SInt:
		return "Int"
	}
	return fmt.Sprintf("(_ BitVec %d)", s.W)
}

var BoolSort = Sort{K: SBool}
var IntSort = Sort{K: SInt}

func BV(w int) Sort { return Sort{K: SBV, W: w} }

type Op uint8

const (
	OConst Op = iota
	OVar
	ONot
	OAnd
	OOr
	OIte
	OEq
	OBvAdd
	OBvSub
	OBvMul
	OBvUdiv
	OBvUrem
	OBvSdiv
	OBvSrem
	OBvAnd
	OBvOr
	OBvXor
	OBvNot
	OBvNeg
	OBvShl
	OBvLshr
	OBvAshr
	OBvUlt
	OBvUle
	OBvSlt
	OBvSle
	OExtract
	OConcat
	OZext
	OSext
	OIntAdd
	OIntSub
	OIntMul
	OIntDiv
	OIntMod
	OIntLt
	OIntLe
	OIntNeg
	OIntAbs
	OBv2Int
	OInt2Bv
	OApply
)

var opNames = map[Op]string{
	ONot: "not", OAnd: "and", OOr: "or", OIte: "ite", OEq: "=",
	OBvAdd: "bvadd", OBvSub: "bvsub", OBvMul: "bvmul", OBvUdiv: "bvudiv", OBvUrem: "bvurem",
	OBvSdiv: "bvsdiv", OBvSrem: "bvsrem", OBvAnd: "bvand", OBvOr: "bvor", OBvXor: "bvxor",
	OBvNot: "bvnot", OBvNeg: "bvneg", OBvShl: "bvshl", OBvLshr: "bvlshr", OBvAshr: "bvashr",
	OBvUlt: "bvult", OBvUle: "bvule", OBvSlt: "bvslt", OBvSle: "bvsle", OConcat: "concat",
	OIntAdd: "+", OIntSub: "-", OIntMul: "*", OIntDiv: "div", OIntMod: "mod", OIntLt: "<", OIntLe: "<=",
	OIntNeg: "-", OIntAbs: "abs", OBv2Int: "bv2nat",
}

type Term struct {
	Op   Op
	S    Sort
	Args []*Term
	Val  uint64   // const value for Bool (0/1) and BV w<=64
	Big  *big.Int // const value for Int and BV w>64
	Name string   // var or UF name
	Hi   int      // extract hi / zext/sext extra bits / int2bv width
	Lo   int
	ID   int
}

func (t *Term) IsConst() bool { return t.Op == OConst }

// TermCtx is a per-worker hash-consing table.
type TermCtx struct {
	tab   map[string]*Term
	next  int
	True  *Term
	False *Term
	ufs   map[string]string // UF name -> declaration
	// hashConsts: for injective hash models, digest constant -> (function, input length, input term)
	hashConsts map[string]hashConstRec
}

type hashConstRec struct {
	fn   string
	data []byte // the concrete input
}

// flatten lists the pieces of a (possibly nested) concatenation, most significant first.
func (c *TermCtx) flatten(t *Term, out []*Term) []*Term {
	if t.Op == OConcat {
		out = c.flatten(t.Args[0], out)
		return c.flatten(t.Args[1], out)
	}
	return append(out, t)
}

// eqSegments builds the conjunction of piecewise equalities of two segment lists of equal total width.
func (c *TermCtx) eqSegments(fa, fb []*Term) *Term {
	acc := c.True
	i, j := 0, 0
	var pa, pb *Term
	for {
		if pa == nil {
			if i >= len(fa) {
				break
			}
			pa = fa[i]
			i++
		}
		if pb == nil {
			if j >= len(fb) {
				break
			}
			pb = fb[j]
			j++
		}
		wa, wb := pa.S.W, pb.S.W
		switch {
		case wa == wb:
			acc = c.And(acc, c.Eq(pa, pb))
			pa, pb = nil, nil
		case wa > wb:
			acc = c.And(acc, c.Eq(c.Extract(pa, wa-1, wa-wb), pb))
			pa, pb = c.Extract(pa, wa-wb-1, 0), nil
		default:
			acc = c.And(acc, c.Eq(pa, c.Extract(pb, wb-1, wb-wa)))
			pa, pb = nil, c.Extract(pb, wb-wa-1, 0)
		}
		if acc.IsConst() && acc.Val == 0 {
			return c.False
		}
	}
	return acc
}

func isHashApp(t *Term) bool { return t.Op == OApply && strings.HasPrefix(t.Name, "H_") }

// hashFnLen splits "H_<fn>_<n>" into fn and n.
func hashFnLen(name string) (string, string) {
	i := strings.LastIndex(name, "_")
	return name[2:i], name[i+1:]
}

func NewTermCtx() *TermCtx {
	c := &TermCtx{tab: map[string]*Term{}, ufs: map[string]string{}, hashConsts: map[string]hashConstRec{}}
	c.True = c.intern(&Term{Op: OConst, S: BoolSort, Val: 1})
	c.False = c.intern(&Term{Op: OConst, S: BoolSort, Val: 0})
	return c
}

func (c *TermCtx) key(t *Term) string {
	var sb strings.Builder
	fmt.Fprintf(&sb, "%d|%d.%d|", t.Op, t.S.K, t.S.W)
	switch t.Op {
	case OConst:
		if t.Big != nil {
			sb.WriteString(t.Big.String())
		} else {
			fmt.Fprintf(&sb, "%d", t.Val)
		}
	case OVar, OApply:
		sb.WriteString(t.Name)
	case OExtract, OZext, OSext, OInt2Bv:
		fmt.Fprintf(&sb, "%d.%d", t.Hi, t.Lo)
	}
	for _, a := range t.Args {
		fmt.Fprintf(&sb, ",%d", a.ID)
	}
	return sb.String()
}

func (c *TermCtx) intern(t *Term) *Term {
	k := c.key(t)
	if o, ok := c.tab[k]; ok {
		return o
	}
	c.next++
	t.ID = c.next
	c.tab[k] = t
	return t
}

func mask(w int) uint64 {
	if w >= 64 {
		return ^uint64(0)
	}
	return (uint64(1) << uint(w)) - 1
}

func (c *TermCtx) Bool(b bool) *Term {
	if b {
		return c.True
	}
	return c.False
}

func (c *TermCtx) BVConst(w int, v uint64) *Term {
	if w > 64 {
		return c.BVConstBig(w, new(big.Int).SetUint64(v))
	}
	return c.intern(&Term{Op: OConst, S: BV(w), Val: v & mask(w)})
}

func (c *TermCtx) BVConstBig(w int, v *big.Int) *Term {
	if w <= 64 {
		return c.BVConst(w, v.Uint64())
	}
	m := new(big.Int).Lsh(big.NewInt(1), uint(w))
	m.Sub(m, big.NewInt(1))
	vv := new(big.Int).And(v, m)
	return c.intern(&Term{Op: OConst, S: BV(w), Big: vv})
}

func (c *TermCtx) IntConst(v *big.Int) *Term {
	return c.intern(&Term{Op: OConst, S: IntSort, Big: new(big.Int).Set(v)})
}

func (c *TermCtx) IntConst64(v int64) *Term { return c.IntConst(big.NewInt(v)) }

func (c *TermCtx) Var(name string, s Sort) *Term {
	return c.intern(&Term{Op: OVar, S: s, Name: name})
}

func (c *TermCtx) mk(op Op, s Sort, args ...*Term) *Term {
	return c.intern(&Term{Op: op, S: s, Args: args})
}

// constBig returns the constant value of a BV/Int const term as big.Int.
func constBig(t *Term) *big.Int {
	if t.Big != nil {
		return t.Big
	}
	return new(big.Int).SetUint64(t.Val)
}

func sext64(v uint64, w int) int64 {
	if w >= 64 {
		return int64(v)
	}
	sh := uint(64 - w)
	return int64(v<<sh) >> sh
}

// ---- Boolean ----

func (c *TermCtx) Not(a *Term) *Term {
	if a.IsConst() {
		return c.Bool(a.Val == 0)
	}
	if a.Op == ONot {
		return a.Args[0]
	}
	return c.mk(ONot, BoolSort, a)
}

func (c *TermCtx) And(a, b *Term) *Term {
	if a.IsConst() {
		if a.Val == 0 {
			return c.False
		}
		return b
	}
	if b.IsConst() {
		if b.Val == 0 {
			return c.False
		}
		return a
	}
	if a == b {
		return a
	}
	return c.mk(OAnd, BoolSort, a, b)
}

func (c *TermCtx) Or(a, b *Term) *Term {
	if a.IsConst() {
		if a.Val == 1 {
			return c.True
		}
		return b
	}
	if b.IsConst() {
		if b.Val == 1 {
			return c.True
		}
		return a
	}
	if a == b {
		return a
	}
	return c.mk(OOr, BoolSort, a, b)
}

func (c *TermCtx) AndN(ts []*Term) *Term {
	r := c.True
	for _, t := range ts {
		r = c.And(r, t)
	}
	return r
}

func (c *TermCtx) Implies(a, b *Term) *Term { return c.Or(c.Not(a), b) }

func (c *TermCtx) Ite(cond, a, b *Term) *Term {
	if cond.IsConst() {
		if cond.Val == 1 {
			return a
		}
		return b
	}
	if a == b {
		return a
	}
	if a.S.K == SBool {
		if a.IsConst() && b.IsConst() {
			if a.Val == 1 {
				return cond
			}
			return c.Not(cond)
		}
	}
	return c.mk(OIte, a.S, cond, a, b)
}

func (c *TermCtx) Eq(a, b *Term) *Term {
	if a == b {
		return c.True
	}
	if a.S != b.S {
		panic(fmt.Sprintf("Eq: sort mismatch %v vs %v", a.S, b.S))
	}
	if a.IsConst() && b.IsConst() {
		if a.Big != nil || b.Big != nil {
			return c.Bool(constBig(a).Cmp(constBig(b)) == 0)
		}
		return c.Bool(a.Val == b.Val)
	}
	if a.S.K == SBool {
		if a.IsConst() {
			a, b = b, a
		}
		if b.IsConst() {
			if b.Val == 1 {
				return a
			}
			return c.Not(a)
		}
	}
	if a.S.K == SBV {
		// injective integer encoding used by the CBOR model
		if a.Op == OApply && b.Op == OApply && a.Name == b.Name && (a.Name == "BigEnc" || a.Name == "IntEnc64") {
			return c.Eq(a.Args[0], b.Args[0])
		}
		// injective hash model: H(x) = H(y) <=> x = y; digests of different-length inputs differ
		if isHashApp(a) && isHashApp(b) {
			fa, la := hashFnLen(a.Name)
			fb, lb := hashFnLen(b.Name)
			if fa == fb {
				if la != lb {
					return c.False
				}
				return c.Eq(a.Args[0], b.Args[0])
			}
		}
		if isHashApp(b) && a.IsConst() {
			a, b = b, a
		}
		if isHashApp(a) && b.IsConst() {
			if rec, ok := c.hashConsts[constBig(b).String()]; ok {
				fa, la := hashFnLen(a.Name)
				if fa == rec.fn {
					if la != fmt.Sprint(len(rec.data)) || len(rec.data) == 0 {
						return c.False
					}
					return c.Eq(a.Args[0], c.BVConstBig(8*len(rec.data), new(big.Int).SetBytes(rec.data)))
				}
			}
		}
		// equalities over concatenations: align the two segment lists piece by piece
		if a.Op == OConcat || b.Op == OConcat {
			return c.eqSegments(c.flatten(a, nil), c.flatten(b, nil))
		}
	}
	if a.ID > b.ID {
		a, b = b, a
	}
	return c.mk(OEq, BoolSort, a, b)
}

// ---- Bit-vectors ----

func (c *TermCtx) bvBin(op Op, a, b *Term) *Term {
	if a.S != b.S {
		panic(fmt.Sprintf("bv op %d: sort mismatch %v vs %v", op, a.S, b.S))
	}
	w := a.S.W
	if a.IsConst() && b.IsConst() && w <= 64 {
		x, y := a.Val, b.Val
		var r uint64
		ok := true
		switch op {
		case OBvAdd:
			r = x + y
		case OBvSub:
			r = x - y
		case OBvMul:
			r = x * y
		case OBvUdiv:
			if y == 0 {
				r = mask(w)
			} else {
				r = x / y
			}
		case OBvUrem:
			if y == 0 {
				r = x
			} else {
				r = x % y
			}
		case OBvSdiv:
			sx, sy := sext64(x, w), sext64(y, w)
			if sy == 0 {
				if sx >= 0 {
					r = mask(w)
				} else {
					r = 1
				}
			} else if sy == -1 {
				r = uint64(-sx)
			} else {
				r = uint64(sx / sy)
			}
		case OBvSrem:
			sx, sy := sext64(x, w), sext64(y, w)
			if sy == 0 {
				r = x
			} else if sy == -1 {
				r = 0
			} else {
				r = uint64(sx % sy)
			}
		case OBvAnd:
			r = x & y
		case OBvOr:
			r = x | y
		case OBvXor:
			r = x ^ y
		case OBvShl:
			if y >= uint64(w) {
				r = 0
			} else {
				r = x << y
			}
		case OBvLshr:
			if y >= uint64(w) {
				r = 0
			} else {
				r = x >> y
			}
		case OBvAshr:
			sx := sext64(x, w)
			if y >= uint64(w) {
				if sx < 0 {
					r = mask(w)
				} else {
					r = 0
				}
			} else {
				r = uint64(sx >> y)
			}
		default:
			ok = false
		}
		if ok {
			return c.BVConst(w, r)
		}
	}
	// identities
	switch op {
	case OBvAdd, OBvOr, OBvXor:
		if isZero(a) {
			return b
		}
		if isZero(b) {
			return a
		}
	case OBvSub, OBvShl, OBvLshr, OBvAshr:
		if isZero(b) {
			return a
		}
	case OBvAnd:
		if isZero(a) || isZero(b) {
			return c.BVConst(w, 0)
		}
		if w <= 64 {
			if a.IsConst() && a.Val == mask(w) {
				return b
			}
			if b.IsConst() && b.Val == mask(w) {
				return a
			}
		}
	case OBvMul:
		if isZero(a) || isZero(b) {
			return c.BVConst(w, 0)
		}
		if isOne(a) {
			return b
		}
		if isOne(b) {
			return a
		}
	}
	// byte | (x<<8) style: handled by solver
	return c.mk(op, a.S, a, b)
}

func isZero(t *Term) bool {
	return t.IsConst() && ((t.Big == nil && t.Val == 0) || (t.Big != nil && t.Big.Sign() == 0))
}
func isOne(t *Term) bool {
	return t.IsConst() && ((t.Big == nil && t.Val == 1) || (t.Big != nil && t.Big.Cmp(big.NewInt(1)) == 0))
}

func (c *TermCtx) BvOp(op Op, a, b *Term) *Term { return c.bvBin(op, a, b) }

func (c *TermCtx) BvCmp(op Op, a, b *Term) *Term {
	if a.S != b.S {
		panic(fmt.Sprintf("bv cmp: sort mismatch %v vs %v", a.S, b.S))
	}
	w := a.S.W
	if a.IsConst() && b.IsConst() && w <= 64 {
		x, y := a.Val, b.Val
		switch op {
		case OBvUlt:
			return c.Bool(x < y)
		case OBvUle:
			return c.Bool(x <= y)
		case OBvSlt:
			return c.Bool(sext64(x, w) < sext64(y, w))
		case OBvSle:
			return c.Bool(sext64(x, w) <= sext64(y, w))
		}
	}
	if a == b {
		return c.Bool(op == OBvUle || op == OBvSle)
	}
	if op == OBvUlt && isZero(b) {
		return c.False
	}
	if op == OBvUle && isZero(a) {
		return c.True
	}
	return c.mk(op, BoolSort, a, b)
}

func (c *TermCtx) BvNot(a *Term) *Term {
	if a.IsConst() && a.S.W <= 64 {
		return c.BVConst(a.S.W, ^a.Val)
	}
	return c.mk(OBvNot, a.S, a)
}

func (c *TermCtx) BvNeg(a *Term) *Term {
	if a.IsConst() && a.S.W <= 64 {
		return c.BVConst(a.S.W, -a.Val)
	}
	return c.mk(OBvNeg, a.S, a)
}

func (c *TermCtx) Extract(a *Term, hi, lo int) *Term {
	w := hi - lo + 1
	if lo == 0 && hi == a.S.W-1 {
		return a
	}
	if a.IsConst() {
		v := new(big.Int).Rsh(constBig(a), uint(lo))
		return c.BVConstBig(w, v)
	}
	if a.Op == OExtract {
		return c.Extract(a.Args[0], a.Lo+hi, a.Lo+lo)
	}
	if a.Op == OConcat {
		// concat(x, y): y is low part
		y := a.Args[1]
		x := a.Args[0]
		if hi < y.S.W {
			return c.Extract(y, hi, lo)
		}
		if lo >= y.S.W {
			return c.Extract(x, hi-y.S.W, lo-y.S.W)
		}
	}
	if a.Op == OZext {
		inner := a.Args[0]
		if hi < inner.S.W {
			return c.Extract(inner, hi, lo)
		}
		if lo >= inner.S.W {
			return c.BVConst(w, 0)
		}
	}
	return c.intern(&Term{Op: OExtract, S: BV(w), Args: []*Term{a}, Hi: hi, Lo: lo})
}

// Concat returns hi ++ lo (hi occupies the most significant bits).
func (c *TermCtx) Concat(hi, lo *Term) *Term {
	w := hi.S.W + lo.S.W
	if hi.IsConst() && lo.IsConst() {
		v := new(big.Int).Lsh(constBig(hi), uint(lo.S.W))
		v.Or(v, constBig(lo))
		return c.BVConstBig(w, v)
	}
	// merge adjacent extracts of the same base
	if hi.Op == OExtract && lo.Op == OExtract && hi.Args[0] == lo.Args[0] && hi.Lo == lo.Hi+1 {
		return c.Extract(hi.Args[0], hi.Hi, lo.Lo)
	}
	// concat(hi, concat(extract.., rest)) right-assoc merge
	if lo.Op == OConcat {
		l0 := lo.Args[0]
		if hi.Op == OExtract && l0.Op == OExtract && hi.Args[0] == l0.Args[0] && hi.Lo == l0.Hi+1 {
			return c.Concat(c.Extract(hi.Args[0], hi.Hi, l0.Lo), lo.Args[1])
		}
		if hi.IsConst() && l0.IsConst() {
			return c.Concat(c.Concat(hi, l0), lo.Args[1])
		}
	}
	return c.mk(OConcat, BV(w), hi, lo)
}

func (c *TermCtx) Zext(a *Term, w int) *Term {
	if w == a.S.W {
		return a
	}
	if w < a.S.W {
		return c.Extract(a, w-1, 0)
	}
	if a.IsConst() {
		return c.BVConstBig(w, constBig(a))
	}
	if a.Op == OZext {
		return c.Zext(a.Args[0], w)
	}
	return c.intern(&Term{Op: OZext, S: BV(w), Args: []*Term{a}, Hi: w - a.S.W})
}

func (c *TermCtx) Sext(a *Term, w int) *Term {
	if w == a.S.W {
		return a
	}
	if w < a.S.W {
		return c.Extract(a, w-1, 0)
	}
	if a.IsConst() && a.S.W <= 64 && w <= 64 {
		return c.BVConst(w, uint64(sext64(a.Val, a.S.W)))
	}
	return c.intern(&Term{Op: OSext, S: BV(w), Args: []*Term{a}, Hi: w - a.S.W})
}

// ---- Integers ----

func (c *TermCtx) IntBin(op Op, a, b *Term) *Term {
	if a.IsConst() && b.IsConst() {
		x, y := a.Big, b.Big
		switch op {
		case OIntAdd:
			return c.IntConst(new(big.Int).Add(x, y))
		case OIntSub:
			return c.IntConst(new(big.Int).Sub(x, y))
		case OIntMul:
			return c.IntConst(new(big.Int).Mul(x, y))
		case OIntDiv:
			if y.Sign() != 0 {
				return c.IntConst(new(big.Int).Div(x, y)) // Euclidean, as SMT-LIB
			}
		case OIntMod:
			if y.Sign() != 0 {
				return c.IntConst(new(big.Int).Mod(x, y))
			}
		}
	}
	switch op {
	case OIntAdd:
		if isZero(a) {
			return b
		}
		if isZero(b) {
			return a
		}
	case OIntSub:
		if isZero(b) {
			return a
		}
		if a == b {
			return c.IntConst64(0)
		}
	case OIntMul:
		if isZero(a) || isZero(b) {
			return c.IntConst64(0)
		}
		if isOne(a) {
			return b
		}
		if isOne(b) {
			return a
		}
	case OIntDiv:
		if isOne(b) {
			return a
		}
	}
	return c.mk(op, IntSort, a, b)
}

func (c *TermCtx) IntCmp(op Op, a, b *Term) *Term {
	if a.IsConst() && b.IsConst() {
		r := a.Big.Cmp(b.Big)
		if op == OIntLt {
			return c.Bool(r < 0)
		}
		return c.Bool(r <= 0)
	}
	if a == b {
		return c.Bool(op == OIntLe)
	}
	return c.mk(op, BoolSort, a, b)
}

func (c *TermCtx) IntNeg(a *Term) *Term {
	if a.IsConst() {
		return c.IntConst(new(big.Int).Neg(a.Big))
	}
	if a.Op == OIntNeg {
		return a.Args[0]
	}
	return c.mk(OIntNeg, IntSort, a)
}

func (c *TermCtx) IntAbs(a *Term) *Term {
	if a.IsConst() {
		return c.IntConst(new(big.Int).Abs(a.Big))
	}
	return c.mk(OIntAbs, IntSort, a)
}

func (c *TermCtx) Bv2Int(a *Term) *Term {
	if a.IsConst() {
		return c.IntConst(constBig(a))
	}
	return c.mk(OBv2Int, IntSort, a)
}

func (c *TermCtx) Int2Bv(a *Term, w int) *Term {
	if a.IsConst() {
		return c.BVConstBig(w, new(big.Int).Mod(a.Big, new(big.Int).Lsh(big.NewInt(1), uint(w))))
	}
	if a.Op == OBv2Int && a.Args[0].S.W == w {
		return a.Args[0]
	}
	return c.intern(&Term{Op: OInt2Bv, S: BV(w), Args: []*Term{a}, Hi: w})
}

// Apply applies the uninterpreted function name (declared on demand).
func (c *TermCtx) Apply(name string, res Sort, args ...*Term) *Term {
	if _, ok := c.ufs[name]; !ok {
		var sb strings.Builder
		fmt.Fprintf(&sb, "(declare-fun %s (", name)
		for i, a := range args {
			if i > 0 {
				sb.WriteByte(' ')
			}
			sb.WriteString(a.S.String())
		}
		fmt.Fprintf(&sb, ") %s)", res)
		c.ufs[name] = sb.String()
	}
	return c.intern(&Term{Op: OApply, S: res, Name: name, Args: args})
}

// ---- Printing ----

func (t *Term) ref() string {
	switch t.Op {
	case OConst:
		return t.constStr()
	case OVar:
		return "|" + t.Name + "|"
	}
	return fmt.Sprintf("t%d", t.ID)
}

func (t *Term) constStr() string {
	switch t.S.K {
	case SBool:
		if t.Val == 1 {
			return "true"
		}
		return "false"
	case SInt:
		if t.Big.Sign() < 0 {
			return "(- " + new(big.Int).Neg(t.Big).String() + ")"
		}
		return t.Big.String()
	}
	if t.S.W%4 == 0 {
		s := constBig(t).Text(16)
		return "#x" + strings.Repeat("0", t.S.W/4-len(s)) + s
	}
	s := constBig(t).Text(2)
	return "#b" + strings.Repeat("0", t.S.W-len(s)) + s
}

// body returns the SMT-LIB text of the node in terms of refs to its children.
func (t *Term) body() string {
	var sb strings.Builder
	switch t.Op {
	case OExtract:
		fmt.Fprintf(&sb, "((_ extract %d %d) %s)", t.Hi, t.Lo, t.Args[0].ref())
	case OZext:
		fmt.Fprintf(&sb, "((_ zero_extend %d) %s)", t.Hi, t.Args[0].ref())
	case OSext:
		fmt.Fprintf(&sb, "((_ sign_extend %d) %s)", t.Hi, t.Args[0].ref())
	case OInt2Bv:
		fmt.Fprintf(&sb, "((_ int2bv %d) %s)", t.Hi, t.Args[0].ref())
	case OApply:
		if len(t.Args) == 0 {
			return t.Name
		}
		fmt.Fprintf(&sb, "(%s", t.Name)
		for _, a := range t.Args {
			sb.WriteByte(' ')
			sb.WriteString(a.ref())
		}
		sb.WriteByte(')')
	default:
		fmt.Fprintf(&sb, "(%s", opNames[t.Op])
		for _, a := range t.Args {
			sb.WriteByte(' ')
			sb.WriteString(a.ref())
		}
		sb.WriteByte(')')
	}
	return sb.String()
}

// String renders the full term (for debugging / samples), bounded depth.
func (t *Term) String() string { return t.str(6) }

func (t *Term) str(d int) string {
	switch t.Op {
	case OConst, OVar:
		return t.ref()
	}
	if d == 0 {
		return "..."
	}
	var sb strings.Builder
	switch t.Op {
	case OExtract:
		fmt.Fprintf(&sb, "((_ extract %d %d) %s)", t.Hi, t.Lo, t.Args[0].str(d-1))
		return sb.String()
	case OApply:
		sb.WriteString("(" + t.Name)
	case OZext:
		sb.WriteString("(zext")
	case OSext:
		sb.WriteString("(sext")
	case OInt2Bv:
		sb.WriteString("(int2bv")
	default:
		sb.WriteString("(" + opNames[t.Op])
	}
	for _, a := range t.Args {
		sb.WriteByte(' ')
		sb.WriteString(a.str(d - 1))
	}
	sb.WriteByte(')')
	return sb.String()
}
