package main

// Engine-side models of functions that cannot be interpreted from source.
// Every model listed here is part of the trusted base of a check that hits it
// (hits are counted per run and written to the evidence file).

import (
	"crypto/sha3"
	"crypto/sha256"
	"crypto/sha512"
	"fmt"
	"go/token"
	"go/types"
	"math/big"
	"strings"

	"golang.org/x/tools/go/ssa"
)

func registerIntrinsics(eng *Engine) {
	in := eng.intrinsics
	nop := func(w *Worker, fr *frame, fn *ssa.Function, args []value) value {
		return zeroResult(fn)
	}
	// ---- sync ----
	for _, n := range []string{
		"(*sync.Mutex).Lock", "(*sync.Mutex).Unlock", "(*sync.RWMutex).Lock", "(*sync.RWMutex).Unlock",
		"(*sync.RWMutex).RLock", "(*sync.RWMutex).RUnlock", "(*sync.WaitGroup).Add", "(*sync.WaitGroup).Done",
		"(*sync.WaitGroup).Wait", "(*sync.Pool).Put", "(*sync.Cond).Broadcast", "(*sync.Cond).Signal",
		"runtime.KeepAlive", "runtime.SetFinalizer", "runtime.Gosched", "runtime.GC",
	} {
		in[n] = nop
	}
	in["(*sync.Mutex).TryLock"] = func(w *Worker, fr *frame, fn *ssa.Function, args []value) value { return true }
	in["(*sync.RWMutex).RLocker"] = nil
	in["(*sync.WaitGroup).Go"] = func(w *Worker, fr *frame, fn *ssa.Function, args []value) value {
		w.goSpawns++
		w.call(fr, 0, args[1], nil)
		return nil
	}
	in["(*sync.Once).Do"] = func(w *Worker, fr *frame, fn *ssa.Function, args []value) value {
		p := args[0].(*value)
		s := (*p).(structure)
		// layout: {_ noCopy; done atomic.Uint32; m Mutex}; keep our own flag in field 0
		if b, ok := s[0].(bool); ok && b {
			return nil
		}
		w.set(&s[0], true)
		w.call(fr, 0, args[1], nil)
		return nil
	}
	in["(*sync.Pool).Get"] = func(w *Worker, fr *frame, fn *ssa.Function, args []value) value {
		p := args[0].(*value)
		s := (*p).(structure)
		st := deref(fn.Signature.Recv().Type()).Underlying().(*types.Struct)
		for i := 0; i < st.NumFields(); i++ {
			if st.Field(i).Name() == "New" {
				if f := s[i]; f != nil {
					if sf, ok := f.(*ssa.Function); ok && sf == nil {
						break
					}
					return w.call(fr, 0, f, nil)
				}
			}
		}
		return iface{}
	}
	// ---- sync/atomic (sequential semantics) ----
	for _, ty := range []string{"Int32", "Int64", "Uint32", "Uint64", "Uintptr"} {
		bw := 64
		if strings.HasSuffix(ty, "32") {
			bw = 32
		}
		signed := strings.HasPrefix(ty, "Int")
		_ = signed
		in["sync/atomic.Load"+ty] = func(w *Worker, fr *frame, fn *ssa.Function, args []value) value {
			return *(args[0].(*value))
		}
		in["sync/atomic.Store"+ty] = func(w *Worker, fr *frame, fn *ssa.Function, args []value) value {
			w.set(args[0].(*value), args[1])
			return nil
		}
		in["sync/atomic.Add"+ty] = func(w *Worker, fr *frame, fn *ssa.Function, args []value) value {
			p := args[0].(*value)
			t := fn.Signature.Params().At(1).Type()
			nv := w.binop(token.ADD, t, t, *p, args[1])
			w.set(p, nv)
			return nv
		}
		in["sync/atomic.Swap"+ty] = func(w *Worker, fr *frame, fn *ssa.Function, args []value) value {
			p := args[0].(*value)
			old := *p
			w.set(p, args[1])
			return old
		}
		in["sync/atomic.CompareAndSwap"+ty] = func(w *Worker, fr *frame, fn *ssa.Function, args []value) value {
			p := args[0].(*value)
			t := fn.Signature.Params().At(1).Type()
			eq := w.equals(t, *p, args[1])
			ok := w.truth(eq, "atomic CAS")
			if ok {
				w.set(p, args[2])
			}
			return ok
		}
		_ = bw
	}
	in["(*sync/atomic.Pointer[T]).Load"] = func(w *Worker, fr *frame, fn *ssa.Function, args []value) value {
		s := (*(args[0].(*value))).(structure)
		v := s[len(s)-1]
		if pv, ok := v.(*value); ok {
			return pv
		}
		return (*value)(nil)
	}
	in["(*sync/atomic.Pointer[T]).Store"] = func(w *Worker, fr *frame, fn *ssa.Function, args []value) value {
		s := (*(args[0].(*value))).(structure)
		w.set(&s[len(s)-1], args[1])
		return nil
	}
	in["(*sync/atomic.Pointer[T]).Swap"] = func(w *Worker, fr *frame, fn *ssa.Function, args []value) value {
		s := (*(args[0].(*value))).(structure)
		old, _ := s[len(s)-1].(*value)
		w.set(&s[len(s)-1], args[1])
		return old
	}
	in["(*sync/atomic.Pointer[T]).CompareAndSwap"] = func(w *Worker, fr *frame, fn *ssa.Function, args []value) value {
		s := (*(args[0].(*value))).(structure)
		old, _ := s[len(s)-1].(*value)
		if old == args[1].(*value) {
			w.set(&s[len(s)-1], args[2])
			return true
		}
		return false
	}
	in["(*sync/atomic.Value).Load"] = func(w *Worker, fr *frame, fn *ssa.Function, args []value) value {
		s := (*(args[0].(*value))).(structure)
		if v, ok := s[0].(iface); ok {
			return v
		}
		return iface{}
	}
	in["(*sync/atomic.Value).Store"] = func(w *Worker, fr *frame, fn *ssa.Function, args []value) value {
		s := (*(args[0].(*value))).(structure)
		w.set(&s[0], args[1])
		return nil
	}

	// ---- errors / fmt ----
	in["errors.Is"] = func(w *Worker, fr *frame, fn *ssa.Function, args []value) value {
		return w.errorsIs(fr, args[0].(iface), args[1].(iface), 0)
	}
	in["errors.As"] = func(w *Worker, fr *frame, fn *ssa.Function, args []value) value {
		return w.errorsAs(fr, args[0].(iface), args[1].(iface), 0)
	}
	in["fmt.Errorf"] = func(w *Worker, fr *frame, fn *ssa.Function, args []value) value {
		return w.fmtErrorf(fr, fn, args)
	}
	sprintf := func(w *Worker, fr *frame, fn *ssa.Function, args []value) value {
		return w.formatString(fr, args[0], args[1].([]value))
	}
	in["fmt.Sprintf"] = sprintf
	in["fmt.Sprint"] = func(w *Worker, fr *frame, fn *ssa.Function, args []value) value {
		return w.formatString(fr, nil, args[0].([]value))
	}
	in["fmt.Sprintln"] = in["fmt.Sprint"]
	for _, n := range []string{"fmt.Printf", "fmt.Println", "fmt.Print", "fmt.Fprintf", "fmt.Fprintln", "fmt.Fprint"} {
		in[n] = func(w *Worker, fr *frame, fn *ssa.Function, args []value) value {
			return tuple{uint64(0), iface{}}
		}
	}

	// ---- bytes / strings kernels implemented in assembly ----
	in["bytes.Equal"] = func(w *Worker, fr *frame, fn *ssa.Function, args []value) value {
		return w.bytesEq(args[0].([]value), args[1].([]value))
	}
	in["bytes.Compare"] = func(w *Worker, fr *frame, fn *ssa.Function, args []value) value {
		return w.bytesCompare(args[0].([]value), args[1].([]value))
	}
	in["internal/bytealg.Compare"] = in["bytes.Compare"]
	in["internal/bytealg.Equal"] = in["bytes.Equal"]
	in["strings.Compare"] = func(w *Worker, fr *frame, fn *ssa.Function, args []value) value {
		return w.bytesCompare(strBytes(args[0]), strBytes(args[1]))
	}
	in["internal/bytealg.CompareString"] = in["strings.Compare"]
	in["crypto/subtle.ConstantTimeCompare"] = func(w *Worker, fr *frame, fn *ssa.Function, args []value) value {
		eq := w.bytesEq(args[0].([]value), args[1].([]value))
		switch eq := eq.(type) {
		case bool:
			if eq {
				return uint64(1)
			}
			return uint64(0)
		case *Term:
			return simp(w.tc.Ite(eq, w.tc.BVConst(64, 1), w.tc.BVConst(64, 0)))
		}
		panic("unreachable")
	}
	indexByte := func(w *Worker, b []value, c value) value {
		for i, x := range b {
			eq := w.equals(types.Typ[types.Uint8], x, c)
			if w.truth(eq, "IndexByte") {
				return uint64(i)
			}
		}
		return ^uint64(0)
	}
	in["bytes.IndexByte"] = func(w *Worker, fr *frame, fn *ssa.Function, args []value) value {
		return indexByte(w, args[0].([]value), args[1])
	}
	in["internal/bytealg.IndexByte"] = in["bytes.IndexByte"]
	in["strings.IndexByte"] = func(w *Worker, fr *frame, fn *ssa.Function, args []value) value {
		return indexByte(w, strBytes(args[0]), args[1])
	}
	in["internal/bytealg.IndexByteString"] = in["strings.IndexByte"]
	in["(*strings.Builder).String"] = func(w *Worker, fr *frame, fn *ssa.Function, args []value) value {
		s := (*(args[0].(*value))).(structure)
		st := deref(fn.Signature.Recv().Type()).Underlying().(*types.Struct)
		for i := 0; i < st.NumFields(); i++ {
			if st.Field(i).Name() == "buf" {
				b, _ := s[i].([]value)
				return mkString(b)
			}
		}
		panic("strings.Builder layout")
	}
	in["(*strings.Builder).copyCheck"] = nop
	in["strings.Clone"] = func(w *Worker, fr *frame, fn *ssa.Function, args []value) value { return args[0] }
	in["bytes.Clone"] = nil

	// ---- sort (reflection-based entry points) ----
	in["sort.Slice"] = func(w *Worker, fr *frame, fn *ssa.Function, args []value) value {
		w.insertionSort(fr, args[0].(iface).v.([]value), args[1])
		return nil
	}
	in["sort.SliceStable"] = in["sort.Slice"]
	in["sort.SliceIsSorted"] = func(w *Worker, fr *frame, fn *ssa.Function, args []value) value {
		s := args[0].(iface).v.([]value)
		for i := len(s) - 1; i > 0; i-- {
			lt := w.call(fr, 0, args[1], []value{uint64(i), uint64(i - 1)})
			if w.truth(lt, "SliceIsSorted") {
				return false
			}
		}
		return true
	}

	// ---- hashes ----
	in["crypto/sha512.Sum512_256"] = func(w *Worker, fr *frame, fn *ssa.Function, args []value) value {
		return array(w.hashBytes("sha512_256", args[0].([]value)))
	}
	in["crypto/sha256.Sum256"] = func(w *Worker, fr *frame, fn *ssa.Function, args []value) value {
		return array(w.hashBytes("sha256", args[0].([]value)))
	}
	in["(*github.com/oasisprotocol/oasis-core/go/common/crypto/hash.Hash).FromBytes"] = func(w *Worker, fr *frame, fn *ssa.Function, args []value) value {
		var all []value
		for _, d := range args[1].([]value) {
			all = append(all, d.([]value)...)
		}
		h := w.hashBytes("sha512_256", all)
		dst := (*(args[0].(*value))).(array)
		for i := range dst {
			w.set(&dst[i], h[i])
		}
		return nil
	}
	in["github.com/cometbft/cometbft/crypto/tmhash.Sum"] = func(w *Worker, fr *frame, fn *ssa.Function, args []value) value {
		return w.hashBytes("sha256", args[0].([]value))
	}

	// ---- logging (oasis-core) ----
	lg := "github.com/oasisprotocol/oasis-core/go/common/logging."
	for _, m := range []string{"Debug", "Info", "Warn", "Error"} {
		in["(*"+lg+"Logger)."+m] = nop
	}
	in["(*"+lg+"Logger).With"] = func(w *Worker, fr *frame, fn *ssa.Function, args []value) value { return args[0] }
	in[lg+"GetLogger"] = func(w *Worker, fr *frame, fn *ssa.Function, args []value) value {
		cell := new(value)
		*cell = zero(deref(fn.Signature.Results().At(0).Type()))
		return cell
	}
	in[lg+"GetLoggerEx"] = in[lg+"GetLogger"]
	in[lg+"GetBaseLogger"] = in[lg+"GetLogger"]

	registerBigIntrinsics(eng)
	registerMoreIntrinsics(eng)
	for k, v := range in {
		if v == nil {
			delete(in, k)
		}
	}
}

func zeroResult(fn *ssa.Function) value {
	res := fn.Signature.Results()
	switch res.Len() {
	case 0:
		return nil
	case 1:
		return zero(res.At(0).Type())
	}
	return zero(res)
}

// truth forces a boolean value to a concrete decision (forking if symbolic).
func (w *Worker) truth(v value, what string) bool {
	switch v := v.(type) {
	case bool:
		return v
	case *Term:
		return w.decideBool(v, what)
	case poison:
		unsupported("decision on poison value (%s) in %s", v.why, what)
	}
	panic(fmt.Sprintf("truth: %T", v))
}

func (w *Worker) insertionSort(fr *frame, s []value, less value) {
	for i := 1; i < len(s); i++ {
		for j := i; j > 0; j-- {
			lt := w.call(fr, 0, less, []value{uint64(j), uint64(j - 1)})
			if !w.truth(lt, "sort less") {
				break
			}
			a, b := s[j], s[j-1]
			w.set(&s[j], b)
			w.set(&s[j-1], a)
		}
	}
}

// ---- hash model ----

// hashBytes returns the 32 digest bytes of the named hash over data.
// Concrete input: the real function. Symbolic input: an uninterpreted function
// per input length with injectivity across all applications on this path.
func (w *Worker) hashBytes(fn string, data []value) []value {
	conc := make([]byte, len(data))
	allConc := true
	for i, b := range data {
		c, ok := b.(uint64)
		if !ok {
			if _, isP := b.(poison); isP {
				unsupported("hash of poison bytes")
			}
			allConc = false
			break
		}
		conc[i] = byte(c)
	}
	out := make([]value, 32)
	var in, res *Term
	if len(data) > 0 {
		in = w.packBytes(data)
	}
	if allConc {
		var sum [32]byte
		switch fn {
		case "sha512_256":
			sum = sha512.Sum512_256(conc)
		case "sha256":
			sum = sha256.Sum256(conc)
		case "cshake128", "cshake256":
			// data = len(N) N len(S) S message (see the cSHAKE model in crypto.go); 32 bytes of output
			n, sOff := int(conc[0])<<8|int(conc[1]), 0
			N := conc[2 : 2+n]
			sOff = 2 + n
			sl := int(conc[sOff])<<8 | int(conc[sOff+1])
			S := conc[sOff+2 : sOff+2+sl]
			var x *sha3.SHAKE
			if fn == "cshake128" {
				x = sha3.NewCSHAKE128(N, S)
			} else {
				x = sha3.NewCSHAKE256(N, S)
			}
			_, _ = x.Write(conc[sOff+2+sl:])
			_, _ = x.Read(sum[:])
		}
		for i := range out {
			out[i] = uint64(sum[i])
		}
		res = w.tc.BVConstBig(256, new(big.Int).SetBytes(sum[:]))
	} else {
		res = w.tc.Apply(fmt.Sprintf("H_%s_%d", fn, len(data)), BV(256), in)
		for i := range out {
			out[i] = simp(w.tc.Extract(res, 255-8*i, 248-8*i))
		}
	}
	if allConc {
		// digest constants of known concrete inputs take part in the injective model (see TermCtx.Eq)
		w.tc.hashConsts[constBig(res).String()] = hashConstRec{fn: fn, data: conc}
	}
	if w.eng.hashAxioms {
		// explicit pairwise injectivity + functional consistency (redundant with the Eq rewriting; kept as an option for cross-checking)
		for _, a := range w.hashApps {
			if a.fn != fn || a.out == res {
				continue
			}
			if a.out.IsConst() && res.IsConst() {
				continue
			}
			if a.n != len(data) {
				w.assertPC(w.tc.Not(w.tc.Eq(a.out, res)))
				continue
			}
			w.assertPC(w.tc.Eq(w.tc.Eq(a.in, in), w.tc.Eq(a.out, res)))
		}
	}
	w.hashApps = append(w.hashApps, hashApp{fn: fn, in: in, n: len(data), out: res})
	return out
}

// ---- errors ----

func (w *Worker) methodOf(t types.Type, name string) *ssa.Function {
	ms := w.eng.prog.MethodSets.MethodSet(t)
	for i := 0; i < ms.Len(); i++ {
		sel := ms.At(i)
		if sel.Obj().Name() == name {
			return w.eng.prog.MethodValue(sel)
		}
	}
	return nil
}

func (w *Worker) errorsIs(fr *frame, err, target iface, depth int) value {
	if depth > 50 {
		unsupported("errors.Is: chain too deep")
	}
	if err.t == nil || target.t == nil {
		return err.t == nil && target.t == nil
	}
	comparable := types.Comparable(target.t)
	for {
		if comparable && types.Identical(err.t, target.t) {
			eq := w.equals(err.t, err.v, target.v)
			if w.truth(eq, "errors.Is") {
				return true
			}
		}
		if m := w.methodOf(err.t, "Is"); m != nil && m.Signature.Params().Len() == 1 && m.Signature.Results().Len() == 1 {
			r := w.call(fr, 0, m, []value{err.v, target})
			if w.truth(r, "errors.Is method") {
				return true
			}
		}
		m := w.methodOf(err.t, "Unwrap")
		if m == nil {
			return false
		}
		r := w.call(fr, 0, m, []value{err.v})
		switch r := r.(type) {
		case iface:
			if r.t == nil {
				return false
			}
			err = r
		case []value:
			for _, e := range r {
				if e.(iface).t == nil {
					continue
				}
				if w.truth(w.errorsIs(fr, e.(iface), target, depth+1), "errors.Is") {
					return true
				}
			}
			return false
		default:
			return false
		}
	}
}

func (w *Worker) errorsAs(fr *frame, err, target iface, depth int) value {
	if target.t == nil {
		panic(targetPanic{v: runtimeErr("errors: target cannot be nil")})
	}
	pt, ok := target.t.Underlying().(*types.Pointer)
	if !ok {
		panic(targetPanic{v: runtimeErr("errors: target must be a non-nil pointer")})
	}
	tt := pt.Elem()
	for err.t != nil {
		if types.AssignableTo(err.t, tt) {
			dst := target.v.(*value)
			if _, isI := tt.Underlying().(*types.Interface); isI {
				w.store(dst, err)
			} else {
				w.store(dst, err.v)
			}
			return true
		}
		if m := w.methodOf(err.t, "As"); m != nil && m.Signature.Params().Len() == 1 {
			if w.truth(w.call(fr, 0, m, []value{err.v, target}), "errors.As method") {
				return true
			}
		}
		m := w.methodOf(err.t, "Unwrap")
		if m == nil {
			return false
		}
		r := w.call(fr, 0, m, []value{err.v})
		switch r := r.(type) {
		case iface:
			err = r
		case []value:
			for _, e := range r {
				if e.(iface).t == nil {
					continue
				}
				if w.truth(w.errorsAs(fr, e.(iface), target, depth+1), "errors.As") {
					return true
				}
			}
			return false
		default:
			return false
		}
	}
	return false
}

// fmtErrorf builds *fmt.wrapError / *fmt.wrapErrors / *errors.errorString values.
func (w *Worker) fmtErrorf(fr *frame, fn *ssa.Function, args []value) value {
	format, _ := args[0].(string)
	vargs, _ := args[1].([]value)
	msg := w.formatString(fr, args[0], vargs)
	// find %w operands in order
	var wrapped []value
	ai := 0
	for i := 0; i < len(format); i++ {
		if format[i] != '%' {
			continue
		}
		i++
		for i < len(format) && strings.ContainsRune("+-# 0123456789.[]*", rune(format[i])) {
			i++
		}
		if i >= len(format) {
			break
		}
		if format[i] == '%' {
			continue
		}
		if format[i] == 'w' && ai < len(vargs) {
			if e, ok := vargs[ai].(iface); ok && e.t != nil {
				if types.Implements(e.t, errorIface) {
					wrapped = append(wrapped, e)
				}
			}
		}
		ai++
	}
	fmtPkg := w.eng.prog.ImportedPackage("fmt")
	switch len(wrapped) {
	case 0:
		ep := w.eng.prog.ImportedPackage("errors")
		t := ep.Type("errorString").Type()
		cell := new(value)
		*cell = structure{msg}
		return iface{t: types.NewPointer(t), v: cell}
	case 1:
		t := fmtPkg.Type("wrapError").Type()
		cell := new(value)
		*cell = structure{msg, wrapped[0]}
		return iface{t: types.NewPointer(t), v: cell}
	default:
		t := fmtPkg.Type("wrapErrors").Type()
		cell := new(value)
		*cell = structure{msg, wrapped}
		return iface{t: types.NewPointer(t), v: cell}
	}
}

var errorIface = types.Universe.Lookup("error").Type().Underlying().(*types.Interface)

// formatString is a best-effort fmt.Sprintf: text is only ever used as an
// opaque message by the checked code paths; symbolic operands print as "<sym>".
func (w *Worker) formatString(fr *frame, format value, args []value) value {
	var sb strings.Builder
	f, hasFmt := format.(string)
	argStr := func(a value) string {
		it, ok := a.(iface)
		if !ok {
			return "<?>"
		}
		if it.t == nil {
			return "<nil>"
		}
		switch v := it.v.(type) {
		case string:
			return v
		case bool:
			return fmt.Sprint(v)
		case uint64:
			if bw, signed, ok := intInfo(it.t); ok && signed {
				return fmt.Sprint(sext64(v, bw))
			}
			return fmt.Sprint(v)
		case float64:
			return fmt.Sprint(v)
		case *Term, *symString:
			return "<sym>"
		}
		// error / Stringer: do not call into target code (side-effect free model)
		return "<" + it.t.String() + ">"
	}
	if !hasFmt {
		for i, a := range args {
			if i > 0 {
				sb.WriteByte(' ')
			}
			sb.WriteString(argStr(a))
		}
		return sb.String()
	}
	// all operands concrete basic values: use the real formatter
	if native, ok := nativeFmtArgs(args); ok {
		return fmt.Sprintf(f, native...)
	}
	ai := 0
	for i := 0; i < len(f); i++ {
		if f[i] != '%' {
			sb.WriteByte(f[i])
			continue
		}
		i++
		for i < len(f) && strings.ContainsRune("+-# 0123456789.[]*", rune(f[i])) {
			i++
		}
		if i >= len(f) {
			break
		}
		if f[i] == '%' {
			sb.WriteByte('%')
			continue
		}
		if ai < len(args) {
			sb.WriteString(argStr(args[ai]))
			ai++
		} else {
			sb.WriteString("%!(MISSING)")
		}
	}
	return sb.String()
}

// nativeFmtArgs converts fully concrete basic operands to native Go values.
func nativeFmtArgs(args []value) ([]any, bool) {
	out := make([]any, len(args))
	for i, a := range args {
		it, ok := a.(iface)
		if !ok || it.t == nil {
			return nil, false
		}
		b, isBasic := it.t.Underlying().(*types.Basic)
		if !isBasic {
			return nil, false
		}
		if _, named := it.t.(*types.Named); named {
			// named basic types may carry String()/Format methods
			if ms := types.NewMethodSet(it.t); ms.Len() > 0 {
				return nil, false
			}
		}
		switch v := it.v.(type) {
		case string:
			out[i] = v
		case bool:
			out[i] = v
		case float64:
			out[i] = v
		case uint64:
			bw, signed, ok := intInfo(b)
			if !ok {
				return nil, false
			}
			switch {
			case signed:
				out[i] = sext64(v, bw)
			case bw == 8:
				out[i] = uint8(v)
			default:
				out[i] = v
			}
		default:
			return nil, false
		}
	}
	return out, true
}
