package main

import (
	"strings"
	"fmt"
	"go/constant"
	"go/token"
	"go/types"
	"math"
	"math/big"
	"unicode/utf8"

	"golang.org/x/tools/go/ssa"
)

func constValue(c *ssa.Const) value {
	if c.Value == nil {
		return zero(c.Type())
	}
	if t, ok := c.Type().Underlying().(*types.Basic); ok {
		switch {
		case t.Info()&types.IsBoolean != 0:
			return constant.BoolVal(c.Value)
		case t.Info()&types.IsInteger != 0:
			w, signed, _ := intInfo(t)
			if signed {
				return uint64(c.Int64()) & mask(w)
			}
			return c.Uint64() & mask(w)
		case t.Info()&types.IsFloat != 0:
			f := c.Float64()
			if t.Kind() == types.Float32 {
				return float64(float32(f))
			}
			return f
		case t.Info()&types.IsComplex != 0:
			return c.Complex128()
		case t.Info()&types.IsString != 0:
			if c.Value.Kind() == constant.String {
				return constant.StringVal(c.Value)
			}
			return string(rune(c.Int64()))
		}
	}
	panic(fmt.Sprintf("constValue: %s", c))
}

// ---- symbolic lifting ----

func (w *Worker) termOf(v value, width int) *Term {
	switch v := v.(type) {
	case *Term:
		if v.S.K == SInt {
			return w.tc.Int2Bv(v, width)
		}
		return v
	case uint64:
		return w.tc.BVConst(width, v)
	}
	panic(fmt.Sprintf("termOf: unexpected %T", v))
}

func (w *Worker) boolTerm(v value) *Term {
	switch v := v.(type) {
	case *Term:
		return v
	case bool:
		return w.tc.Bool(v)
	}
	panic(fmt.Sprintf("boolTerm: unexpected %T", v))
}

// simp converts constant terms back to concrete values.
func simp(t *Term) value {
	if t.IsConst() {
		switch t.S.K {
		case SBool:
			return t.Val == 1
		case SBV:
			if t.S.W <= 64 {
				return t.Val
			}
		}
	}
	return t
}

func isSym(v value) bool {
	_, ok := v.(*Term)
	return ok
}

// ---- strings ----

func strLen(v value) int {
	switch s := v.(type) {
	case string:
		return len(s)
	case *symString:
		return len(s.b)
	}
	panic(fmt.Sprintf("strLen: %T", v))
}

func strBytes(v value) []value {
	switch s := v.(type) {
	case string:
		r := make([]value, len(s))
		for i := 0; i < len(s); i++ {
			r[i] = uint64(s[i])
		}
		return r
	case *symString:
		return s.b
	}
	panic(fmt.Sprintf("strBytes: %T", v))
}

// mkString builds a string value from bytes (concrete string if possible).
func mkString(b []value) value {
	buf := make([]byte, len(b))
	for i, x := range b {
		c, ok := x.(uint64)
		if !ok {
			cp := make([]value, len(b))
			copy(cp, b)
			return &symString{b: cp}
		}
		buf[i] = byte(c)
	}
	return string(buf)
}

// ---- equality ----

// equals returns bool or *Term.
func (w *Worker) equals(t types.Type, x, y value) value {
	switch x := x.(type) {
	case bool:
		switch y := y.(type) {
		case bool:
			return x == y
		case *Term:
			return simp(w.tc.Eq(w.tc.Bool(x), y))
		}
	case uint64:
		switch y := y.(type) {
		case uint64:
			return x == y
		case *Term:
			if y.S.K == SInt {
				bw, signed, _ := intInfo(t)
				return simp(w.tc.Eq(w.asIntTerm(x, bw, signed), y))
			}
			return simp(w.tc.Eq(w.tc.BVConst(y.S.W, x), y))
		}
	case *Term:
		if x.S.K == SInt || isIntSorted(y) {
			if bw, signed, ok := intInfo(t); ok {
				return simp(w.tc.Eq(w.asIntTerm(x, bw, signed), w.asIntTerm(y, bw, signed)))
			}
		}
		switch y := y.(type) {
		case *Term:
			return simp(w.tc.Eq(x, y))
		case bool:
			return simp(w.tc.Eq(x, w.tc.Bool(y)))
		case uint64:
			return simp(w.tc.Eq(x, w.tc.BVConst(x.S.W, y)))
		}
	case float64:
		return x == y.(float64)
	case complex128:
		return x == y.(complex128)
	case string:
		switch y := y.(type) {
		case string:
			return x == y
		case *symString:
			return w.bytesEq(strBytes(x), y.b)
		}
	case *symString:
		return w.bytesEq(x.b, strBytes(y))
	case *value:
		return x == y.(*value)
	case *chanv:
		return x == y.(*chanv)
	case structure:
		y := y.(structure)
		ts := t.Underlying().(*types.Struct)
		var acc value = true
		for i := range x {
			if ts.Field(i).Name() == "_" {
				continue
			}
			acc = w.and(acc, w.equals(ts.Field(i).Type(), x[i], y[i]))
			if acc == false {
				return false
			}
		}
		return acc
	case array:
		y := y.(array)
		te := t.Underlying().(*types.Array).Elem()
		if bw, _, ok := intInfo(te); ok && bw == 8 {
			return w.bytesEq(x, y)
		}
		var acc value = true
		for i := range x {
			acc = w.and(acc, w.equals(te, x[i], y[i]))
			if acc == false {
				return false
			}
		}
		return acc
	case iface:
		y := y.(iface)
		if x.t == nil || y.t == nil {
			return x.t == nil && y.t == nil
		}
		if !types.Identical(x.t, y.t) {
			return false
		}
		return w.equals(x.t, x.v, y.v)
	case *big.Int:
		// only inside big.Int structs compared structurally (should not happen)
		unsupported("structural comparison of big.Int")
	case poison:
		unsupported("use of poison value: %s", x.why)
	}
	if _, ok := y.(poison); ok {
		unsupported("use of poison value")
	}
	panic(targetPanic{v: iface{t: types.Typ[types.String], v: fmt.Sprintf("runtime error: comparing uncomparable type %s", t)}})
}

// bytesEq compares two equally typed byte sequences; different lengths => false.
func (w *Worker) bytesEq(x, y []value) value {
	if len(x) != len(y) {
		return false
	}
	if len(x) == 0 {
		return true
	}
	allConc := true
	for i := range x {
		xc, ok1 := x[i].(uint64)
		yc, ok2 := y[i].(uint64)
		if ok1 && ok2 {
			if xc != yc {
				return false
			}
		} else {
			allConc = false
		}
	}
	if allConc {
		return true
	}
	// pack maximal runs; compare run-wise so that concrete runs vanish
	var acc *Term = w.tc.True
	i := 0
	for i < len(x) {
		// skip equal concrete bytes
		_, ok1 := x[i].(uint64)
		_, ok2 := y[i].(uint64)
		if ok1 && ok2 {
			i++
			continue
		}
		j := i
		for j < len(x) && j-i < 64 {
			_, c1 := x[j].(uint64)
			_, c2 := y[j].(uint64)
			if c1 && c2 {
				break
			}
			j++
		}
		acc = w.tc.And(acc, w.tc.Eq(w.packBytes(x[i:j]), w.packBytes(y[i:j])))
		if acc.IsConst() && acc.Val == 0 {
			return false
		}
		i = j
	}
	return simp(acc)
}

// packBytes concatenates bytes big-endian (first byte most significant).
func (w *Worker) packBytes(b []value) *Term {
	// build right to left so Concat's right-assoc merging applies
	var acc *Term
	for i := len(b) - 1; i >= 0; i-- {
		t := w.termOf(b[i], 8)
		if acc == nil {
			acc = t
		} else {
			acc = w.tc.Concat(t, acc)
		}
	}
	return acc
}

func (w *Worker) and(a, b value) value {
	if ab, ok := a.(bool); ok {
		if !ab {
			return false
		}
		return b
	}
	if bb, ok := b.(bool); ok {
		if !bb {
			return false
		}
		return a
	}
	return simp(w.tc.And(a.(*Term), b.(*Term)))
}

func (w *Worker) not(a value) value {
	if ab, ok := a.(bool); ok {
		return !ab
	}
	return simp(w.tc.Not(a.(*Term)))
}

// eqnil handles comparisons where the static type is a slice, map or func.
func (w *Worker) eqnil(t types.Type, x, y value) value {
	isNil := func(v value) bool {
		switch v := v.(type) {
		case []value:
			return v == nil
		case *omap:
			return v == nil
		case *ssa.Function:
			return v == nil
		case *closure:
			return v == nil
		case *ssa.Builtin:
			return v == nil
		case iface:
			return v.t == nil
		}
		panic(fmt.Sprintf("eqnil: unexpected %T", v))
	}
	return isNil(x) == isNil(y)
}

// ---- binary operators ----

func (w *Worker) binop(op token.Token, tx, ty types.Type, x, y value) value {
	if p, ok := x.(poison); ok {
		return p
	}
	if p, ok := y.(poison); ok {
		return p
	}
	switch op {
	case token.EQL, token.NEQ:
		var r value
		switch tx.Underlying().(type) {
		case *types.Slice, *types.Map, *types.Signature:
			r = w.eqnil(tx, x, y)
		default:
			r = w.equals(tx, x, y)
		}
		if op == token.NEQ {
			return w.not(r)
		}
		return r
	}
	if isString(tx) {
		return w.strBinop(op, x, y)
	}
	if isFloat(tx) {
		return floatBinop(op, tx, x.(float64), y.(float64))
	}
	if bw, signed, ok := intInfo(tx); ok {
		return w.intBinop(op, bw, signed, ty, x, y)
	}
	if isBoolT(tx) {
		// &, | on bools do not exist; only ==, != handled above
	}
	if _, ok := x.(complex128); ok {
		a, b := x.(complex128), y.(complex128)
		switch op {
		case token.ADD:
			return a + b
		case token.SUB:
			return a - b
		case token.MUL:
			return a * b
		case token.QUO:
			return a / b
		}
	}
	panic(fmt.Sprintf("invalid binary op: %T %s %T (type %s)", x, op, y, tx))
}

func floatBinop(op token.Token, t types.Type, x, y float64) value {
	f32 := t.Underlying().(*types.Basic).Kind() == types.Float32
	r := func(v float64) value {
		if f32 {
			return float64(float32(v))
		}
		return v
	}
	switch op {
	case token.ADD:
		return r(x + y)
	case token.SUB:
		return r(x - y)
	case token.MUL:
		return r(x * y)
	case token.QUO:
		return r(x / y)
	case token.LSS:
		return x < y
	case token.LEQ:
		return x <= y
	case token.GTR:
		return x > y
	case token.GEQ:
		return x >= y
	}
	panic("invalid float op " + op.String())
}

func (w *Worker) strBinop(op token.Token, x, y value) value {
	xs, xok := x.(string)
	ys, yok := y.(string)
	if xok && yok {
		switch op {
		case token.ADD:
			return xs + ys
		case token.LSS:
			return xs < ys
		case token.LEQ:
			return xs <= ys
		case token.GTR:
			return xs > ys
		case token.GEQ:
			return xs >= ys
		}
		panic("invalid string op " + op.String())
	}
	xb, yb := strBytes(x), strBytes(y)
	switch op {
	case token.ADD:
		r := make([]value, 0, len(xb)+len(yb))
		r = append(r, xb...)
		r = append(r, yb...)
		return mkString(r)
	}
	cmp := w.bytesCompare(xb, yb) // BV64 term or concrete: -1,0,1 as int
	switch op {
	case token.LSS:
		return w.intBinop(token.LSS, 64, true, types.Typ[types.Int], cmp, uint64(0))
	case token.LEQ:
		return w.intBinop(token.LEQ, 64, true, types.Typ[types.Int], cmp, uint64(0))
	case token.GTR:
		return w.intBinop(token.GTR, 64, true, types.Typ[types.Int], cmp, uint64(0))
	case token.GEQ:
		return w.intBinop(token.GEQ, 64, true, types.Typ[types.Int], cmp, uint64(0))
	}
	panic("invalid string op " + op.String())
}

// bytesCompare returns the three-way lexicographic comparison as an int value.
func (w *Worker) bytesCompare(x, y []value) value {
	n := len(x)
	if len(y) < n {
		n = len(y)
	}
	// tail result (all common bytes equal)
	var tail uint64
	switch {
	case len(x) < len(y):
		tail = ^uint64(0)
	case len(x) > len(y):
		tail = 1
	}
	var res value = tail
	for i := n - 1; i >= 0; i-- {
		xc, ok1 := x[i].(uint64)
		yc, ok2 := y[i].(uint64)
		if ok1 && ok2 {
			if xc < yc {
				res = ^uint64(0)
			} else if xc > yc {
				res = uint64(1)
			}
			continue
		}
		xt, yt := w.termOf(x[i], 8), w.termOf(y[i], 8)
		lt := w.tc.BvCmp(OBvUlt, xt, yt)
		eq := w.tc.Eq(xt, yt)
		rt := w.termOf(res, 64)
		res = simp(w.tc.Ite(lt, w.tc.BVConst(64, ^uint64(0)), w.tc.Ite(eq, rt, w.tc.BVConst(64, 1))))
	}
	return res
}

// isIntSorted reports whether v is a machine integer held as a mathematical
// integer term (value proven to be in range when it was created).
func isIntSorted(v value) bool {
	t, ok := v.(*Term)
	return ok && t.S.K == SInt
}

// intFits reports whether the mathematical integer t provably lies in the range
// of the machine type (bw, signed) under the current path condition.
func (w *Worker) intFits(t *Term, bw int, signed bool) bool {
	lo, hi := new(big.Int), new(big.Int)
	if signed {
		lo.Neg(new(big.Int).Lsh(big.NewInt(1), uint(bw-1)))
		hi.Sub(new(big.Int).Lsh(big.NewInt(1), uint(bw-1)), big.NewInt(1))
	} else {
		hi.Sub(new(big.Int).Lsh(big.NewInt(1), uint(bw)), big.NewInt(1))
	}
	if t.IsConst() {
		return t.Big.Cmp(lo) >= 0 && t.Big.Cmp(hi) <= 0
	}
	if w.lenient || w.sol == nil {
		return false
	}
	out := w.tc.Or(w.tc.IntCmp(OIntLt, t, w.tc.IntConst(lo)), w.tc.IntCmp(OIntLt, w.tc.IntConst(hi), t))
	return w.sol.CheckWith(out) == Unsat
}

// asIntTerm lifts a machine integer value to a mathematical integer term.
func (w *Worker) asIntTerm(v value, bw int, signed bool) *Term {
	switch v := v.(type) {
	case uint64:
		if signed {
			return w.tc.IntConst64(sext64(v, bw))
		}
		return w.tc.IntConst(new(big.Int).SetUint64(v))
	case *Term:
		if v.S.K == SInt {
			return v
		}
		n := w.tc.Bv2Int(v)
		if signed {
			neg := w.tc.BvCmp(OBvSlt, v, w.tc.BVConst(v.S.W, 0))
			return w.tc.Ite(neg, w.tc.IntBin(OIntSub, n, w.tc.IntConst(new(big.Int).Lsh(big.NewInt(1), uint(v.S.W)))), n)
		}
		return n
	}
	panic(fmt.Sprintf("asIntTerm: %T", v))
}

func (w *Worker) intBinop(op token.Token, bw int, signed bool, ty types.Type, x, y value) value {
	if isIntSorted(x) || isIntSorted(y) {
		switch op {
		case token.LSS, token.LEQ, token.GTR, token.GEQ:
			xt, yt := w.asIntTerm(x, bw, signed), w.asIntTerm(y, bw, signed)
			switch op {
			case token.LSS:
				return simp(w.tc.IntCmp(OIntLt, xt, yt))
			case token.LEQ:
				return simp(w.tc.IntCmp(OIntLe, xt, yt))
			case token.GTR:
				return simp(w.tc.IntCmp(OIntLt, yt, xt))
			default:
				return simp(w.tc.IntCmp(OIntLe, yt, xt))
			}
		}
		// + - * stay mathematical integers when the result provably fits the machine type on this path
		if op == token.ADD || op == token.SUB || op == token.MUL {
			xt, yt := w.asIntTerm(x, bw, signed), w.asIntTerm(y, bw, signed)
			var r *Term
			switch op {
			case token.ADD:
				r = w.tc.IntBin(OIntAdd, xt, yt)
			case token.SUB:
				r = w.tc.IntBin(OIntSub, xt, yt)
			default:
				r = w.tc.IntBin(OIntMul, xt, yt)
			}
			if w.intFits(r, bw, signed) {
				if r.IsConst() {
					return uint64(r.Big.Int64()) & mask(bw)
				}
				return r
			}
		}
		// otherwise: fall back to the bit-vector image
		if isIntSorted(x) {
			x = simp(w.tc.Int2Bv(x.(*Term), bw))
		}
		if isIntSorted(y) && op != token.SHL && op != token.SHR {
			y = simp(w.tc.Int2Bv(y.(*Term), bw))
		}
	}
	xc, xok := x.(uint64)
	yc, yok := y.(uint64)
	m := mask(bw)
	switch op {
	case token.SHL, token.SHR:
		yw, ysigned, ok := intInfo(ty)
		if !ok {
			panic("shift count type")
		}
		if xok && yok {
			if ysigned && sext64(yc, yw) < 0 {
				panic(targetPanic{v: runtimeErr("negative shift amount")})
			}
			if op == token.SHL {
				if yc >= uint64(bw) {
					return uint64(0)
				}
				return (xc << yc) & m
			}
			if signed {
				sx := sext64(xc, bw)
				if yc >= uint64(bw) {
					yc = uint64(bw - 1)
				}
				return uint64(sx>>yc) & m
			}
			if yc >= uint64(bw) {
				return uint64(0)
			}
			return xc >> yc
		}
		xt := w.termOf(x, bw)
		yt := w.termOf(y, yw)
		if ysigned {
			neg := w.tc.BvCmp(OBvSlt, yt, w.tc.BVConst(yw, 0))
			if w.decideBool(neg, "negative shift") {
				panic(targetPanic{v: runtimeErr("negative shift amount")})
			}
		}
		// bring the count to width bw, saturating
		var cnt *Term
		if yw > bw {
			big := w.tc.BvCmp(OBvUle, w.tc.BVConst(yw, uint64(bw)), yt)
			cnt = w.tc.Ite(big, w.tc.BVConst(bw, uint64(bw)), w.tc.Extract(yt, bw-1, 0))
		} else {
			cnt = w.tc.Zext(yt, bw)
		}
		switch {
		case op == token.SHL:
			return simp(w.tc.BvOp(OBvShl, xt, cnt))
		case signed:
			return simp(w.tc.BvOp(OBvAshr, xt, cnt))
		default:
			return simp(w.tc.BvOp(OBvLshr, xt, cnt))
		}
	}
	if xok && yok {
		sx, sy := sext64(xc, bw), sext64(yc, bw)
		switch op {
		case token.ADD:
			return (xc + yc) & m
		case token.SUB:
			return (xc - yc) & m
		case token.MUL:
			return (xc * yc) & m
		case token.QUO:
			if yc == 0 {
				panic(targetPanic{v: runtimeErr("integer divide by zero")})
			}
			if signed {
				if sy == -1 {
					return uint64(-sx) & m
				}
				return uint64(sx/sy) & m
			}
			return xc / yc
		case token.REM:
			if yc == 0 {
				panic(targetPanic{v: runtimeErr("integer divide by zero")})
			}
			if signed {
				if sy == -1 {
					return uint64(0)
				}
				return uint64(sx%sy) & m
			}
			return xc % yc
		case token.AND:
			return xc & yc
		case token.OR:
			return xc | yc
		case token.XOR:
			return xc ^ yc
		case token.AND_NOT:
			return xc &^ yc
		case token.LSS:
			if signed {
				return sx < sy
			}
			return xc < yc
		case token.LEQ:
			if signed {
				return sx <= sy
			}
			return xc <= yc
		case token.GTR:
			if signed {
				return sx > sy
			}
			return xc > yc
		case token.GEQ:
			if signed {
				return sx >= sy
			}
			return xc >= yc
		}
		panic("invalid int op " + op.String())
	}
	xt, yt := w.termOf(x, bw), w.termOf(y, bw)
	tc := w.tc
	switch op {
	case token.ADD:
		return simp(tc.BvOp(OBvAdd, xt, yt))
	case token.SUB:
		return simp(tc.BvOp(OBvSub, xt, yt))
	case token.MUL:
		return simp(tc.BvOp(OBvMul, xt, yt))
	case token.QUO, token.REM:
		if w.decideBool(tc.Eq(yt, tc.BVConst(bw, 0)), "div by zero") {
			panic(targetPanic{v: runtimeErr("integer divide by zero")})
		}
		var o Op
		switch {
		case op == token.QUO && signed:
			o = OBvSdiv
		case op == token.QUO:
			o = OBvUdiv
		case signed:
			o = OBvSrem
		default:
			o = OBvUrem
		}
		return simp(tc.BvOp(o, xt, yt))
	case token.AND:
		return simp(tc.BvOp(OBvAnd, xt, yt))
	case token.OR:
		return simp(tc.BvOp(OBvOr, xt, yt))
	case token.XOR:
		return simp(tc.BvOp(OBvXor, xt, yt))
	case token.AND_NOT:
		return simp(tc.BvOp(OBvAnd, xt, tc.BvNot(yt)))
	case token.LSS:
		if signed {
			return simp(tc.BvCmp(OBvSlt, xt, yt))
		}
		return simp(tc.BvCmp(OBvUlt, xt, yt))
	case token.LEQ:
		if signed {
			return simp(tc.BvCmp(OBvSle, xt, yt))
		}
		return simp(tc.BvCmp(OBvUle, xt, yt))
	case token.GTR:
		if signed {
			return simp(tc.BvCmp(OBvSlt, yt, xt))
		}
		return simp(tc.BvCmp(OBvUlt, yt, xt))
	case token.GEQ:
		if signed {
			return simp(tc.BvCmp(OBvSle, yt, xt))
		}
		return simp(tc.BvCmp(OBvUle, yt, xt))
	}
	panic("invalid int op " + op.String())
}

func runtimeErr(msg string) value {
	return iface{t: runtimeErrorType, v: "runtime error: " + msg}
}

// runtimeErrorType is set at load time to runtime.errorString if available.
var runtimeErrorType types.Type = types.Typ[types.String]

// ---- unary ----

func (w *Worker) unop(instr *ssa.UnOp, x value) value {
	if p, ok := x.(poison); ok && instr.Op != token.MUL {
		return p
	}
	_ = 0
	switch instr.Op {
	case token.ARROW:
		ch, _ := x.(*chanv)
		if ch == nil {
			unsupported("receive from nil channel")
		}
		var v value
		ok := false
		if len(ch.buf) > 0 {
			v = ch.buf[0]
			w.logUndo(func() func() { old := ch.buf; return func() { ch.buf = old } }())
			ch.buf = ch.buf[1:]
			ok = true
		} else if ch.closed {
			v = zero(instr.X.Type().Underlying().(*types.Chan).Elem())
		} else {
			unsupported("blocking channel receive")
		}
		if instr.CommaOk {
			return tuple{v, ok}
		}
		return v
	case token.SUB:
		switch x := x.(type) {
		case uint64:
			bw, _, _ := intInfo(instr.X.Type())
			return (-x) & mask(bw)
		case *Term:
			return simp(w.tc.BvNeg(x))
		case float64:
			return -x
		case complex128:
			return -x
		}
	case token.MUL:
		if po, ok := x.(poison); ok {
			unsupported("dereference of poison pointer: %s", po.why)
		}
		p := x.(*value)
		if p == nil {
			panic(targetPanic{v: runtimeErr("invalid memory address or nil pointer dereference")})
		}
		v := *p
		if po, ok := v.(poison); ok && !w.lenient && !strings.Contains(po.why, "global crypto/rand.Reader") {
			// (crypto/rand.Reader is only ever handed to modelled primitives, which ignore it; any real use of the
			// poison value is still reported where it happens)
			unsupported("load of poison value: %s", po.why)
		}
		return copyVal(v)
	case token.NOT:
		return w.not(x)
	case token.XOR:
		switch x := x.(type) {
		case uint64:
			bw, _, _ := intInfo(instr.X.Type())
			return (^x) & mask(bw)
		case *Term:
			return simp(w.tc.BvNot(x))
		}
	}
	panic(fmt.Sprintf("invalid unary op %s %T", instr.Op, x))
}

// ---- conversions ----

func (w *Worker) conv(tdst, tsrc types.Type, x value) value {
	if p, ok := x.(poison); ok {
		return p
	}
	utSrc := tsrc.Underlying()
	utDst := tdst.Underlying()
	switch us := utSrc.(type) {
	case *types.Pointer:
		if b, ok := utDst.(*types.Basic); ok && b.Kind() == types.UnsafePointer {
			return poison{"unsafe.Pointer conversion"}
		}
	case *types.Slice:
		// []byte / []rune -> string
		if isString(utDst) {
			xs := x.([]value)
			ew, _, _ := intInfo(us.Elem())
			if ew == 8 {
				return mkString(xs)
			}
			rs := make([]rune, len(xs))
			for i, r := range xs {
				c, ok := r.(uint64)
				if !ok {
					unsupported("[]rune with symbolic element to string")
				}
				rs[i] = rune(sext64(c, 32))
			}
			return string(rs)
		}
	case *types.Basic:
		if us.Kind() == types.UnsafePointer {
			return poison{"unsafe.Pointer conversion"}
		}
		if us.Info()&types.IsString != 0 {
			switch ud := utDst.(type) {
			case *types.Slice:
				ew, _, _ := intInfo(ud.Elem())
				if ew == 8 {
					b := strBytes(x)
					r := make([]value, len(b))
					copy(r, b)
					return r
				}
				s, ok := x.(string)
				if !ok {
					unsupported("symbolic string to []rune")
				}
				var res []value
				for _, r := range s {
					res = append(res, uint64(uint32(r)))
				}
				if res == nil {
					res = []value{}
				}
				return res
			case *types.Basic:
				if ud.Info()&types.IsString != 0 {
					return x
				}
			}
		}
		if sw, ssigned, ok := intInfo(us); ok {
			if ud, ok := utDst.(*types.Basic); ok {
				if ud.Info()&types.IsString != 0 {
					c, ok := x.(uint64)
					if !ok {
						unsupported("symbolic integer to string")
					}
					return string(rune(sext64(c, sw)))
				}
				if dw, dsigned, ok := intInfo(ud); ok {
					if xt, isT := x.(*Term); isT && xt.S.K == SInt {
						if w.intFits(xt, dw, dsigned) {
							return xt
						}
						x = simp(w.tc.Int2Bv(xt, sw))
					}
					switch x := x.(type) {
					case uint64:
						if ssigned {
							return uint64(sext64(x, sw)) & mask(dw)
						}
						return x & mask(dw)
					case *Term:
						if dw <= sw {
							return simp(w.tc.Extract(x, dw-1, 0))
						}
						if ssigned {
							return simp(w.tc.Sext(x, dw))
						}
						return simp(w.tc.Zext(x, dw))
					}
				}
				if ud.Info()&types.IsFloat != 0 {
					c, ok := x.(uint64)
					if !ok {
						unsupported("symbolic integer to float")
					}
					var f float64
					if ssigned {
						f = float64(sext64(c, sw))
					} else {
						f = float64(c)
					}
					if ud.Kind() == types.Float32 {
						f = float64(float32(f))
					}
					return f
				}
			}
		}
		if us.Info()&types.IsFloat != 0 {
			f := x.(float64)
			if ud, ok := utDst.(*types.Basic); ok {
				if dw, dsigned, ok := intInfo(ud); ok {
					if dsigned {
						return uint64(int64(f)) & mask(dw)
					}
					if f < 0 {
						return uint64(int64(f)) & mask(dw)
					}
					return uint64(f) & mask(dw)
				}
				if ud.Kind() == types.Float32 {
					return float64(float32(f))
				}
				if ud.Info()&types.IsFloat != 0 {
					return f
				}
			}
		}
		if us.Info()&types.IsComplex != 0 {
			return x
		}
	}
	panic(fmt.Sprintf("unsupported conversion: %s -> %s, dynamic type %T", tsrc, tdst, x))
}

var _ = math.MaxInt64
var _ = utf8.RuneError
