package main

// Model of the checkpoint chunk framing (storage/mkvs/checkpoint: a snappy
// compressed stream of CBOR byte strings):
//
//   - snappy.NewBufferedWriter / snappy.NewReader are the identity transformation
//     (compression is a bijection between byte streams; its format is not the
//     subject of any property);
//   - the streaming CBOR encoder / decoder of byte strings uses an injective
//     length-prefixed record format: one tag byte (0x40 byte string, 0xf6 null),
//     two length bytes, the bytes. The decoder reports io.EOF at a clean record
//     boundary, io.ErrUnexpectedEOF inside a record and a decoding error for an
//     unknown tag - the error classes of the real decoder that callers can
//     distinguish.
//
// Everything around them (hash builder, TeeReader, MultiWriter, the order of the
// digest / decode / proof checks) is the real code.

import (
	"go/types"

	"golang.org/x/tools/go/ssa"
)

const (
	snappyPkg = "github.com/golang/snappy"
	fxcborPkg = "github.com/fxamacker/cbor/v2"
)

func init() {
	moreRegs = append(moreRegs, func(eng *Engine) {
		in := eng.intrinsics
		// holder allocates a value of the named struct type and stores the wrapped stream in its first field.
		holder := func(w *Worker, pkgPath, typeName string, inner value) value {
			p := w.eng.prog.ImportedPackage(pkgPath)
			if p == nil {
				unsupported("package %s not loaded", pkgPath)
			}
			s := append(structure{}, zero(p.Type(typeName).Type()).(structure)...)
			s[0] = inner
			cell := new(value)
			*cell = s
			return cell
		}
		inner := func(p value) iface {
			s := (*(p.(*value))).(structure)
			i, ok := s[0].(iface)
			if !ok {
				unsupported("stream model: object was not created by a modelled constructor")
			}
			return i
		}
		// method call on an interface value
		callIface := func(w *Worker, fr *frame, recv iface, name string, args ...value) value {
			if recv.t == nil {
				panic(targetPanic{v: runtimeErr("invalid memory address or nil pointer dereference (method call on nil interface)")})
			}
			f := w.eng.prog.LookupMethod(recv.t, nil, name)
			if f == nil {
				unsupported("stream model: %v has no method %s", recv.t, name)
			}
			return w.call(fr, 0, f, append([]value{recv.v}, args...))
		}
		ioVar := func(w *Worker, name string) value {
			p := w.eng.prog.ImportedPackage("io")
			return copyVal(*w.globalAddr(p.Var(name)))
		}
		isNilErr := func(v value) bool {
			e, ok := v.(iface)
			return !ok || e.t == nil
		}

		in[snappyPkg+".NewBufferedWriter"] = func(w *Worker, fr *frame, f *ssa.Function, args []value) value {
			return holder(w, snappyPkg, "Writer", args[0])
		}
		in[snappyPkg+".NewWriter"] = in[snappyPkg+".NewBufferedWriter"]
		in["(*"+snappyPkg+".Writer).Write"] = func(w *Worker, fr *frame, f *ssa.Function, args []value) value {
			return callIface(w, fr, inner(args[0]), "Write", args[1])
		}
		in["(*"+snappyPkg+".Writer).Close"] = func(w *Worker, fr *frame, f *ssa.Function, args []value) value { return iface{} }
		in["(*"+snappyPkg+".Writer).Flush"] = func(w *Worker, fr *frame, f *ssa.Function, args []value) value { return iface{} }
		in[snappyPkg+".NewReader"] = func(w *Worker, fr *frame, f *ssa.Function, args []value) value {
			return holder(w, snappyPkg, "Reader", args[0])
		}
		in["(*"+snappyPkg+".Reader).Read"] = func(w *Worker, fr *frame, f *ssa.Function, args []value) value {
			return callIface(w, fr, inner(args[0]), "Read", args[1])
		}

		// streaming CBOR of byte strings
		newCodec := func(typeName string) intrinsicFn {
			return func(w *Worker, fr *frame, f *ssa.Function, args []value) value {
				return holder(w, fxcborPkg, typeName, args[len(args)-1])
			}
		}
		in["github.com/oasisprotocol/oasis-core/go/common/cbor.NewEncoder"] = newCodec("Encoder")
		in["github.com/oasisprotocol/oasis-core/go/common/cbor.NewDecoder"] = newCodec("Decoder")
		in["(*"+fxcborPkg+".Encoder).Encode"] = func(w *Worker, fr *frame, f *ssa.Function, args []value) value {
			v, ok := args[1].(iface)
			if !ok {
				unsupported("stream cbor model: Encode of a non-interface value")
			}
			sl, isSlice := v.t.(*types.Slice)
			if v.t == nil || !isSlice || !isByte(sl.Elem()) {
				unsupported("stream cbor model: only []byte records are modelled (got %v)", v.t)
			}
			data, _ := v.v.([]value)
			n := len(data)
			if n > 0xffff {
				unsupported("stream cbor model: record longer than 65535 bytes")
			}
			rec := make([]value, 0, n+3)
			if v.v == nil || data == nil {
				rec = append(rec, uint64(0xf6), uint64(0), uint64(0))
			} else {
				rec = append(rec, uint64(0x40), uint64(n&0xff), uint64(n>>8))
				rec = append(rec, data...)
			}
			res := callIface(w, fr, inner(args[0]), "Write", rec)
			return res.(tuple)[1]
		}
		// readFull reads exactly n bytes; returns (bytes read, error value)
		readFull := func(w *Worker, fr *frame, r iface, n int) ([]value, value) {
			var got []value
			for len(got) < n {
				buf := make([]value, n-len(got))
				for i := range buf {
					buf[i] = uint64(0)
				}
				res := callIface(w, fr, r, "Read", buf).(tuple)
				k := int(w.concreteInt(res[0], 64, true, "stream cbor model: Read count"))
				got = append(got, buf[:k]...)
				if !isNilErr(res[1]) {
					return got, res[1]
				}
				if k == 0 {
					unsupported("stream cbor model: reader returned 0 bytes without error")
				}
			}
			return got, iface{}
		}
		in["(*"+fxcborPkg+".Decoder).Decode"] = func(w *Worker, fr *frame, f *ssa.Function, args []value) value {
			r := inner(args[0])
			dst, ok := args[1].(iface)
			if !ok || dst.t == nil {
				unsupported("stream cbor model: Decode into a non-pointer")
			}
			pt, isPtr := dst.t.(*types.Pointer)
			if !isPtr {
				unsupported("stream cbor model: Decode into %v", dst.t)
			}
			sl, isSlice := pt.Elem().(*types.Slice)
			if !isSlice || !isByte(sl.Elem()) {
				unsupported("stream cbor model: only []byte records are modelled (got %v)", pt.Elem())
			}
			hdr, err := readFull(w, fr, r, 3)
			if !isNilErr(err) {
				if len(hdr) == 0 {
					return err // io.EOF at a record boundary (or the reader's own error)
				}
				return ioVar(w, "ErrUnexpectedEOF")
			}
			tag := w.concretizeByte(hdr[0], "stream cbor model: record tag")
			switch tag {
			case 0xf6:
				w.set(dst.v.(*value), []value(nil))
				return iface{}
			case 0x40:
			default:
				return w.mkError("cbor: cannot unmarshal into Go value of type []uint8 (model: unknown record tag)")
			}
			n := int(w.concretizeByte(hdr[1], "stream cbor model: record length")) | int(w.concretizeByte(hdr[2], "stream cbor model: record length"))<<8
			data, err := readFull(w, fr, r, n)
			if !isNilErr(err) {
				return ioVar(w, "ErrUnexpectedEOF")
			}
			if data == nil {
				data = []value{}
			}
			w.set(dst.v.(*value), data)
			return iface{}
		}
	})
}

// concretizeByte returns the value of a byte, forking over its feasible values when it is symbolic.
func (w *Worker) concretizeByte(v value, what string) uint64 {
	switch v := v.(type) {
	case uint64:
		return v & 0xff
	case *Term:
		return w.concretize(v, what) & 0xff
	}
	unsupported("%s: unexpected value %T", what, v)
	return 0
}

func isByte(t types.Type) bool {
	b, ok := t.Underlying().(*types.Basic)
	return ok && (b.Kind() == types.Uint8 || b.Kind() == types.Byte)
}
