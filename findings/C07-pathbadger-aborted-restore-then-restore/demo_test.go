package checkpoint

// Demonstration of known finding C07-pathbadger-aborted-restore-then-restore (place this file in
// go/storage/mkvs/checkpoint and run: go test -count=1 -run TestDemoC07PathbadgerRestoreAfterAbort .)
//
// A checkpoint restore into the path-keyed node database that is given up after the first chunk
// (AbortMultipartInsert; a crash + reopen in the middle of the restore behaves the same) and is then
// repeated to completion finalizes without an error, but the finalized version cannot be read. The same
// sequence on the hash-keyed back end works. The test FAILS on the unrepaired code.

import (
	"bytes"
	"context"
	"path/filepath"
	"testing"

	"github.com/stretchr/testify/require"

	"github.com/oasisprotocol/oasis-core/go/common"
	"github.com/oasisprotocol/oasis-core/go/storage/mkvs"
	"github.com/oasisprotocol/oasis-core/go/storage/mkvs/db/api"
	badgerdb "github.com/oasisprotocol/oasis-core/go/storage/mkvs/db/badger"
	"github.com/oasisprotocol/oasis-core/go/storage/mkvs/db/pathbadger"
	"github.com/oasisprotocol/oasis-core/go/storage/mkvs/node"
)

func TestDemoC07PathbadgerRestoreAfterAbort(t *testing.T) {
	for _, be := range []struct {
		name string
		open func(*api.Config) (api.NodeDB, error)
	}{{"badger", badgerdb.New}, {"pathbadger", pathbadger.New}} {
		t.Run(be.name, func(t *testing.T) {
			require := require.New(t)
			ctx := context.Background()
			var ns common.Namespace
			dir := t.TempDir()

			// Source database with a two-key tree at version 3 and a checkpoint with one leaf per chunk.
			src, err := be.open(&api.Config{DB: filepath.Join(dir, "src"), Namespace: ns, NoFsync: true, MaxCacheSize: 16 << 20})
			require.NoError(err)
			defer src.Close()
			tree := mkvs.New(nil, src, node.RootTypeState)
			require.NoError(tree.Insert(ctx, []byte{0x1b}, []byte{1}))
			require.NoError(tree.Insert(ctx, []byte{0x9a}, []byte{2}))
			_, h, err := tree.Commit(ctx, ns, 3)
			require.NoError(err)
			root := node.Root{Namespace: ns, Version: 3, Type: node.RootTypeState, Hash: h}
			require.NoError(src.Finalize([]node.Root{root}))
			fc, err := NewFileCreator(filepath.Join(dir, "checkpoints"), src)
			require.NoError(err)
			cp, err := fc.CreateCheckpoint(ctx, root, 1, 0)
			require.NoError(err)
			require.True(len(cp.Chunks) >= 2)

			dst, err := be.open(&api.Config{DB: filepath.Join(dir, "dst"), Namespace: ns, NoFsync: true, MaxCacheSize: 16 << 20})
			require.NoError(err)
			defer dst.Close()
			restoreChunk := func(rs Restorer, i int) {
				cm, err := cp.GetChunkMetadata(uint64(i))
				require.NoError(err)
				var buf bytes.Buffer
				require.NoError(fc.GetCheckpointChunk(ctx, cm, &buf))
				_, err = rs.RestoreChunk(ctx, uint64(i), &buf)
				require.NoError(err)
			}

			// First attempt: one chunk, then the restore is given up.
			require.NoError(dst.StartMultipartInsert(3))
			rs, _ := NewRestorer(dst)
			require.NoError(rs.StartRestore(ctx, cp))
			restoreChunk(rs, 0)
			require.NoError(rs.AbortRestore(ctx))
			require.NoError(dst.AbortMultipartInsert())

			// Second attempt: the whole checkpoint.
			require.NoError(dst.StartMultipartInsert(3))
			rs, _ = NewRestorer(dst)
			require.NoError(rs.StartRestore(ctx, cp))
			for i := range cp.Chunks {
				restoreChunk(rs, i)
			}
			require.NoError(dst.Finalize([]node.Root{root}))

			// The finalized version must be completely readable.
			rt := mkvs.NewWithRoot(nil, dst, root)
			defer rt.Close()
			v, err := rt.Get(ctx, []byte{0x1b})
			require.NoError(err, "finalized restored version cannot be read")
			require.Equal([]byte{1}, v)
			v, err = rt.Get(ctx, []byte{0x9a})
			require.NoError(err, "finalized restored version cannot be read")
			require.Equal([]byte{2}, v)
		})
	}
}
