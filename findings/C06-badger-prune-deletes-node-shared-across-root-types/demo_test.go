package badger

// Demonstration of known finding C06-badger-prune-deletes-node-shared-across-root-types (place this file in
// go/storage/mkvs/db/badger and run: go test -count=1 -run TestDemoC06PruneSharedAcrossRootTypes .)
// Version 1 holds a state root and an IO root with the same entry (the hash-keyed back end keys nodes by hash
// alone, so both trees share the leaf). Version 2's state root inherits that leaf. Prune(1) treats the IO root -
// which never has derived roots - as a lone root and deletes every node written in version 1, including the
// shared leaf. Afterwards the retained finalized state root of version 2 cannot be read. FAILS on the unrepaired code.

import (
	"context"
	"testing"

	"github.com/stretchr/testify/require"

	"github.com/oasisprotocol/oasis-core/go/common"
	"github.com/oasisprotocol/oasis-core/go/storage/mkvs"
	"github.com/oasisprotocol/oasis-core/go/storage/mkvs/db/api"
	"github.com/oasisprotocol/oasis-core/go/storage/mkvs/node"
)

func TestDemoC06PruneSharedAcrossRootTypes(t *testing.T) {
	require := require.New(t)
	ctx := context.Background()
	var ns common.Namespace
	db, err := New(&api.Config{DB: t.TempDir(), Namespace: ns, NoFsync: true, MaxCacheSize: 16 << 20})
	require.NoError(err)
	defer db.Close()

	commit := func(tr mkvs.Tree, v uint64, typ node.RootType) node.Root {
		_, h, err := tr.Commit(ctx, ns, v)
		require.NoError(err)
		return node.Root{Namespace: ns, Version: v, Type: typ, Hash: h}
	}
	st := mkvs.New(nil, db, node.RootTypeState)
	defer st.Close()
	require.NoError(st.Insert(ctx, []byte("k"), []byte("v")))
	s1 := commit(st, 1, node.RootTypeState)
	io1 := mkvs.New(nil, db, node.RootTypeIO)
	require.NoError(io1.Insert(ctx, []byte("k"), []byte("v")))
	i1 := commit(io1, 1, node.RootTypeIO)
	io1.Close()
	require.NoError(db.Finalize([]node.Root{s1, i1}))

	require.NoError(st.Insert(ctx, []byte("other"), []byte("w")))
	s2 := commit(st, 2, node.RootTypeState)
	io2 := mkvs.New(nil, db, node.RootTypeIO)
	require.NoError(io2.Insert(ctx, []byte("x"), []byte("y")))
	i2 := commit(io2, 2, node.RootTypeIO)
	io2.Close()
	require.NoError(db.Finalize([]node.Root{s2, i2}))

	require.NoError(db.Prune(1))

	rt := mkvs.NewWithRoot(nil, db, s2)
	defer rt.Close()
	v, err := rt.Get(ctx, []byte("k"))
	require.NoError(err, "a key of the retained finalized state root cannot be read after pruning version 1")
	require.Equal([]byte("v"), v)
}
