package badger

// Demonstration of the repaired defect "pruning a version whose finalized root is the empty root fails forever"
// (hash-keyed back end; fix commit in known_findings.txt). Place this file in go/storage/mkvs/db/badger and run
//   go test -count=1 -run TestDemoC06PruneOfEmptyRoot .
// Version 1 = {a}, version 2 removes a (the empty root, committed and finalized), version 3 inserts b.
// Prune(1) works; before the repair Prune(2) returned "node not found in node db" on every attempt: a commit
// on top of an empty root records no derived-root link, so the empty root looks like a lone root and Prune
// tried to traverse it - the earliest version could never advance again.

import (
	"context"
	"testing"

	"github.com/stretchr/testify/require"

	"github.com/oasisprotocol/oasis-core/go/common"
	"github.com/oasisprotocol/oasis-core/go/storage/mkvs"
	"github.com/oasisprotocol/oasis-core/go/storage/mkvs/db/api"
	"github.com/oasisprotocol/oasis-core/go/storage/mkvs/node"
)

func TestDemoC06PruneOfEmptyRoot(t *testing.T) {
	require := require.New(t)
	ctx := context.Background()
	var ns common.Namespace
	db, err := New(&api.Config{DB: t.TempDir(), Namespace: ns, NoFsync: true, MaxCacheSize: 16 << 20})
	require.NoError(err)
	defer db.Close()

	tr := mkvs.New(nil, db, node.RootTypeState)
	defer tr.Close()
	commit := func(v uint64) node.Root {
		_, h, err := tr.Commit(ctx, ns, v)
		require.NoError(err)
		r := node.Root{Namespace: ns, Version: v, Type: node.RootTypeState, Hash: h}
		require.NoError(db.Finalize([]node.Root{r}))
		return r
	}
	require.NoError(tr.Insert(ctx, []byte("a"), []byte("x")))
	commit(1)
	require.NoError(tr.Remove(ctx, []byte("a")))
	r2 := commit(2)
	require.True(r2.Hash.IsEmpty())
	require.NoError(tr.Insert(ctx, []byte("b"), []byte("y")))
	r3 := commit(3)

	require.NoError(db.Prune(1))
	require.NoError(db.Prune(2), "pruning the version whose root is empty")
	require.EqualValues(3, db.GetEarliestVersion())
	t3 := mkvs.NewWithRoot(nil, db, r3)
	defer t3.Close()
	v, err := t3.Get(ctx, []byte("b"))
	require.NoError(err)
	require.Equal([]byte("y"), v)
}
