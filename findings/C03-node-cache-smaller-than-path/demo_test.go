package mkvs

import (
	"context"
	"testing"

	"github.com/oasisprotocol/oasis-core/go/common"
	db "github.com/oasisprotocol/oasis-core/go/storage/mkvs/db/api"
	badgerDb "github.com/oasisprotocol/oasis-core/go/storage/mkvs/db/badger"
	"github.com/oasisprotocol/oasis-core/go/storage/mkvs/node"
)

// TestDemoTinyNodeCache: with a node cache smaller than the path being worked on, removing an
// ABSENT key from a committed, database-backed tree loses live keys (or panics in doRemove).
// Fails on the unmodified tree; passes when Capacity(1, 0) is replaced by Capacity(0, 0).
func TestDemoTinyNodeCache(t *testing.T) {
	ctx := context.Background()
	var ns common.Namespace
	ndb, err := badgerDb.New(&db.Config{DB: t.TempDir(), Namespace: ns, MaxCacheSize: 16 * 1024 * 1024, NoFsync: true})
	if err != nil {
		t.Fatal(err)
	}
	defer ndb.Close()
	tree := New(nil, ndb, node.RootTypeState, Capacity(1, 0))
	defer tree.Close()
	keys := [][]byte{{0x40, 0x40}, {0x00}, {0xc0}}
	for _, k := range keys {
		if err := tree.Insert(ctx, k, []byte("v")); err != nil {
			t.Fatal(err)
		}
	}
	if _, _, err := tree.Commit(ctx, ns, 1); err != nil {
		t.Fatal(err)
	}
	func() {
		defer func() {
			if r := recover(); r != nil {
				t.Errorf("Remove of an absent key panicked: %v", r)
			}
		}()
		if err := tree.Remove(ctx, []byte{0x80, 0x80}); err != nil {
			t.Errorf("Remove of an absent key failed: %v", err)
		}
	}()
	for _, k := range keys {
		v, err := tree.Get(ctx, k)
		if err != nil || string(v) != "v" {
			t.Errorf("Get(%x) = %q, %v after removing an absent key; want \"v\"", k, v, err)
		}
	}
}
