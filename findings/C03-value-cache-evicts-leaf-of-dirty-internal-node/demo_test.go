package mkvs

import (
	"context"
	"os"
	"testing"

	"github.com/stretchr/testify/require"

	"github.com/oasisprotocol/oasis-core/go/common"
	db "github.com/oasisprotocol/oasis-core/go/storage/mkvs/db/api"
	badgerDb "github.com/oasisprotocol/oasis-core/go/storage/mkvs/db/badger"
	"github.com/oasisprotocol/oasis-core/go/storage/mkvs/node"
)

func TestDemoValueCacheEvictsLeafOfDirtyInternalNode(t *testing.T) {
	ctx := context.Background()
	dir, err := os.MkdirTemp("", "mkvs.explore")
	require.NoError(t, err)
	defer os.RemoveAll(dir)
	var ns common.Namespace
	ndb, err := badgerDb.New(&db.Config{DB: dir, NoFsync: true, Namespace: ns, MaxCacheSize: 16 * 1024 * 1024})
	require.NoError(t, err)
	defer ndb.Close()

	tr := New(nil, ndb, node.RootTypeState)
	require.NoError(t, tr.Insert(ctx, []byte("a"), []byte("va")))
	require.NoError(t, tr.Insert(ctx, []byte("b"), []byte("vb")))
	_, h0, err := tr.Commit(ctx, ns, 0)
	require.NoError(t, err)
	tr.Close()

	root := node.Root{Namespace: ns, Version: 0, Type: node.RootTypeState, Hash: h0}
	t2 := NewWithRoot(nil, ndb, root, Capacity(0, 1))
	v, err := t2.Get(ctx, []byte("a"))
	require.NoError(t, err)
	require.Equal(t, []byte("va"), v)
	require.NoError(t, t2.Insert(ctx, []byte("ab"), []byte("vab")))
	v, err = t2.Get(ctx, []byte("b"))
	require.NoError(t, err)
	require.Equal(t, []byte("vb"), v)
	require.NoError(t, t2.Insert(ctx, []byte("ac"), []byte("vac")))
	_, h1, err := t2.Commit(ctx, ns, 1)
	require.NoError(t, err)

	ref := New(nil, nil, node.RootTypeState)
	for _, kv := range [][2]string{{"a", "va"}, {"b", "vb"}, {"ab", "vab"}, {"ac", "vac"}} {
		require.NoError(t, ref.Insert(ctx, []byte(kv[0]), []byte(kv[1])))
	}
	_, hr, err := ref.Commit(ctx, ns, 1)
	require.NoError(t, err)
	ref2 := New(nil, nil, node.RootTypeState)
	for _, kv := range [][2]string{{"b", "vb"}, {"ac", "vac"}} {
		require.NoError(t, ref2.Insert(ctx, []byte(kv[0]), []byte(kv[1])))
	}
	_, hr2, _ := ref2.Commit(ctx, ns, 1)
	t.Logf("equals {b,ac} tree: %v", hr2 == h1)
	t3 := NewWithRoot(nil, ndb, node.Root{Namespace: ns, Version: 1, Type: node.RootTypeState, Hash: h1})
	for _, k := range []string{"a", "ab", "ac", "b"} {
		v, err := t3.Get(ctx, []byte(k))
		t.Logf("%s -> %q %v", k, v, err)
	}
	require.Equal(t, hr, h1)
}
