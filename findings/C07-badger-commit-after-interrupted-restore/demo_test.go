package checkpoint

// Demonstration of the repaired defect "a version committed normally after an interrupted checkpoint restore of
// the same root is finalized without its nodes" (hash-keyed back end; fix commit in known_findings.txt). Place this
// file in go/storage/mkvs/checkpoint and run: go test -count=1 -run TestDemoC07CommitAfterInterruptedRestore .
// Version 1 finalized. A restore of a checkpoint at version 2 is interrupted (the process stops after the chunk was
// imported, before Finalize). On reopen the restored nodes are removed, but the roots metadata of version 2 still
// lists the root. The node then reaches version 2 by executing blocks and commits the very same root: before the
// repair Commit took the "root already exists" shortcut and wrote nothing, Finalize succeeded, and the finalized
// version could not be read.

import (
	"bytes"
	"context"
	"path/filepath"
	"testing"

	"github.com/stretchr/testify/require"

	"github.com/oasisprotocol/oasis-core/go/common"
	"github.com/oasisprotocol/oasis-core/go/storage/mkvs"
	"github.com/oasisprotocol/oasis-core/go/storage/mkvs/db/api"
	badgerdb "github.com/oasisprotocol/oasis-core/go/storage/mkvs/db/badger"
	"github.com/oasisprotocol/oasis-core/go/storage/mkvs/node"
)

func TestDemoC07CommitAfterInterruptedRestore(t *testing.T) {
	require := require.New(t)
	ctx := context.Background()
	var ns common.Namespace
	dir := t.TempDir()

	// the chain as another node has it: version 1 = {a}, version 2 = {a, b}; checkpoint of version 2
	src, err := badgerdb.New(&api.Config{DB: filepath.Join(dir, "src"), Namespace: ns, NoFsync: true, MaxCacheSize: 16 << 20})
	require.NoError(err)
	defer src.Close()
	build := func(db api.NodeDB) (node.Root, mkvs.Tree) {
		tr := mkvs.New(nil, db, node.RootTypeState)
		require.NoError(tr.Insert(ctx, []byte("a"), []byte("x")))
		_, h, err := tr.Commit(ctx, ns, 1)
		require.NoError(err)
		r := node.Root{Namespace: ns, Version: 1, Type: node.RootTypeState, Hash: h}
		require.NoError(db.Finalize([]node.Root{r}))
		return r, tr
	}
	next := func(db api.NodeDB, tr mkvs.Tree) node.Root {
		require.NoError(tr.Insert(ctx, []byte("b"), []byte("y")))
		_, h, err := tr.Commit(ctx, ns, 2)
		require.NoError(err)
		r := node.Root{Namespace: ns, Version: 2, Type: node.RootTypeState, Hash: h}
		require.NoError(db.Finalize([]node.Root{r}))
		return r
	}
	_, st := build(src)
	root2 := next(src, st)
	st.Close()
	fc, err := NewFileCreator(filepath.Join(dir, "checkpoints"), src)
	require.NoError(err)
	cp, err := fc.CreateCheckpoint(ctx, root2, 1024*1024, 0)
	require.NoError(err)

	// this node: version 1, then an interrupted restore of the checkpoint
	cfg := &api.Config{DB: filepath.Join(dir, "dst"), Namespace: ns, NoFsync: true, MaxCacheSize: 16 << 20}
	dst, err := badgerdb.New(cfg)
	require.NoError(err)
	_, dt := build(dst)
	dt.Close()
	require.NoError(dst.StartMultipartInsert(2))
	rs, _ := NewRestorer(dst)
	require.NoError(rs.StartRestore(ctx, cp))
	for i := range cp.Chunks {
		cm, err := cp.GetChunkMetadata(uint64(i))
		require.NoError(err)
		var buf bytes.Buffer
		require.NoError(fc.GetCheckpointChunk(ctx, cm, &buf))
		_, err = rs.RestoreChunk(ctx, uint64(i), &buf)
		require.NoError(err)
	}
	dst.Close() // the process stops before Finalize

	dst, err = badgerdb.New(cfg)
	require.NoError(err)
	defer dst.Close()
	// block execution reaches version 2 with the same root
	r1roots, err := dst.GetRootsForVersion(1)
	require.NoError(err)
	require.Len(r1roots, 1)
	tr := mkvs.NewWithRoot(nil, dst, r1roots[0])
	got := next(dst, tr)
	tr.Close()
	require.Equal(root2.Hash, got.Hash)

	rt := mkvs.NewWithRoot(nil, dst, got)
	defer rt.Close()
	v, err := rt.Get(ctx, []byte("b"))
	require.NoError(err, "the finalized version cannot be read")
	require.Equal([]byte("y"), v)
	v, err = rt.Get(ctx, []byte("a"))
	require.NoError(err, "the finalized version cannot be read")
	require.Equal([]byte("x"), v)
}
