package checkpoint

// Place in go/storage/mkvs/checkpoint. On the unmodified tree the 130-key chain fails to restore
// ("verifier: max proof depth exceeded"), the 16-key chain restores.

import (
	"bytes"
	"context"
	"testing"

	"github.com/oasisprotocol/oasis-core/go/common"
	"github.com/oasisprotocol/oasis-core/go/storage/mkvs"
	db "github.com/oasisprotocol/oasis-core/go/storage/mkvs/db/api"
	badgerDb "github.com/oasisprotocol/oasis-core/go/storage/mkvs/db/badger"
	"github.com/oasisprotocol/oasis-core/go/storage/mkvs/node"
)

func TestDemoDeepPrefixChainRestore(t *testing.T) {
	ctx := context.Background()
	var ns common.Namespace
	for _, n := range []int{16, 130} {
		ndb, err := badgerDb.New(&db.Config{DB: t.TempDir(), Namespace: ns, MaxCacheSize: 16 << 20, NoFsync: true})
		if err != nil {
			t.Fatal(err)
		}
		tree := mkvs.New(nil, ndb, node.RootTypeState)
		for i := 1; i <= n; i++ {
			if err := tree.Insert(ctx, bytes.Repeat([]byte("a"), i), []byte("v")); err != nil {
				t.Fatal(err)
			}
		}
		_, h, err := tree.Commit(ctx, ns, 1)
		if err != nil {
			t.Fatal(err)
		}
		root := node.Root{Namespace: ns, Version: 1, Type: node.RootTypeState, Hash: h}
		if err := ndb.Finalize([]node.Root{root}); err != nil {
			t.Fatal(err)
		}
		fc, err := NewFileCreator(t.TempDir(), ndb)
		if err != nil {
			t.Fatal(err)
		}
		cp, err := fc.CreateCheckpoint(ctx, root, 1<<20, 0)
		if err != nil {
			t.Fatalf("n=%d create: %v", n, err)
		}
		ndb2, err := badgerDb.New(&db.Config{DB: t.TempDir(), Namespace: ns, MaxCacheSize: 16 << 20, NoFsync: true})
		if err != nil {
			t.Fatal(err)
		}
		rs, _ := NewRestorer(ndb2)
		if err := ndb2.StartMultipartInsert(1); err != nil {
			t.Fatal(err)
		}
		if err := rs.StartRestore(ctx, cp); err != nil {
			t.Fatal(err)
		}
		for i := range cp.Chunks {
			cm, _ := cp.GetChunkMetadata(uint64(i))
			var buf bytes.Buffer
			if err := fc.GetCheckpointChunk(ctx, cm, &buf); err != nil {
				t.Fatal(err)
			}
			if _, err := rs.RestoreChunk(ctx, uint64(i), &buf); err != nil {
				t.Errorf("prefix chain of %d keys: chunk %d of the honest checkpoint does not restore: %v", n, i, err)
			}
		}
		ndb.Close()
		ndb2.Close()
	}
}
