package badger

// Demonstration of known finding C06-discarded-root-recreates-inherited-node (place this file in
// go/storage/mkvs/db/badger and run: go test -count=1 -run TestDemoC06DiscardedRootRecreatesInheritedNode .)
//
// Version 1 = {a: x}, finalized. Two candidate roots for version 2, both derived from version 1:
// F = version 1 + {b: y}, and Y = version 1 after Remove(a), Insert(a, x) (same contents as version 1, but
// the leaf (a, x) was re-created, i.e. written again, in version 2). Finalize(2, [F]) discards Y, treats the
// re-created leaf as a node only Y needs and deletes it at version 2 - but F keeps that very leaf from
// version 1. Afterwards the finalized root F cannot be read. The test FAILS on the unrepaired code.

import (
	"context"
	"testing"

	"github.com/stretchr/testify/require"

	"github.com/oasisprotocol/oasis-core/go/common"
	"github.com/oasisprotocol/oasis-core/go/storage/mkvs"
	"github.com/oasisprotocol/oasis-core/go/storage/mkvs/db/api"
	"github.com/oasisprotocol/oasis-core/go/storage/mkvs/node"
)

func TestDemoC06DiscardedRootRecreatesInheritedNode(t *testing.T) {
	require := require.New(t)
	ctx := context.Background()
	var ns common.Namespace
	db, err := New(&api.Config{DB: t.TempDir(), Namespace: ns, NoFsync: true, MaxCacheSize: 16 << 20})
	require.NoError(err)
	defer db.Close()

	t1 := mkvs.New(nil, db, node.RootTypeState)
	require.NoError(t1.Insert(ctx, []byte("a"), []byte("x")))
	_, h1, err := t1.Commit(ctx, ns, 1)
	require.NoError(err)
	r1 := node.Root{Namespace: ns, Version: 1, Type: node.RootTypeState, Hash: h1}
	require.NoError(db.Finalize([]node.Root{r1}))

	// candidate F
	require.NoError(t1.Insert(ctx, []byte("b"), []byte("y")))
	_, hF, err := t1.Commit(ctx, ns, 2)
	require.NoError(err)
	t1.Close()
	rF := node.Root{Namespace: ns, Version: 2, Type: node.RootTypeState, Hash: hF}

	// candidate Y: removes and re-creates the leaf that F inherits from version 1
	ty := mkvs.NewWithRoot(nil, db, r1)
	require.NoError(ty.Remove(ctx, []byte("a")))
	require.NoError(ty.Insert(ctx, []byte("a"), []byte("x")))
	_, _, err = ty.Commit(ctx, ns, 2)
	require.NoError(err)
	ty.Close()

	require.NoError(db.Finalize([]node.Root{rF}))

	tf := mkvs.NewWithRoot(nil, db, rF)
	defer tf.Close()
	v, err := tf.Get(ctx, []byte("a"))
	require.NoError(err, "a key of the finalized root cannot be read")
	require.Equal([]byte("x"), v)
	v, err = tf.Get(ctx, []byte("b"))
	require.NoError(err)
	require.Equal([]byte("y"), v)
}
