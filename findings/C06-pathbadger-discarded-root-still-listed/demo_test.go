package pathbadger

// Demonstration of the repaired defect "pathbadger keeps the root node of a discarded root" (fix: commit in
// known_findings.txt). Place this file in go/storage/mkvs/db/pathbadger and run
//   go test -count=1 -run TestDemoC06DiscardedRootStillListed .
// Version 1 = {a: x}, finalized. Two candidates for version 2, both derived from version 1: A (committed first)
// = + {b: A}, B = + {c: B}. Finalize(2, [B]) discards A. Before the repair HasRoot(A) stayed true and reading A
// returned B's nodes (or failed) - contents that do not hash to the root the database claims to have.

import (
	"context"
	"testing"

	"github.com/stretchr/testify/require"

	"github.com/oasisprotocol/oasis-core/go/common"
	"github.com/oasisprotocol/oasis-core/go/storage/mkvs"
	"github.com/oasisprotocol/oasis-core/go/storage/mkvs/db/api"
	"github.com/oasisprotocol/oasis-core/go/storage/mkvs/node"
)

func TestDemoC06DiscardedRootStillListed(t *testing.T) {
	require := require.New(t)
	ctx := context.Background()
	var ns common.Namespace
	db, err := New(&api.Config{DB: t.TempDir(), Namespace: ns, NoFsync: true, MaxCacheSize: 16 << 20})
	require.NoError(err)
	defer db.Close()

	t1 := mkvs.New(nil, db, node.RootTypeState)
	require.NoError(t1.Insert(ctx, []byte("a"), []byte("x")))
	_, h1, err := t1.Commit(ctx, ns, 1)
	require.NoError(err)
	t1.Close()
	r1 := node.Root{Namespace: ns, Version: 1, Type: node.RootTypeState, Hash: h1}
	require.NoError(db.Finalize([]node.Root{r1}))

	candidate := func(k, v string) node.Root {
		tr := mkvs.NewWithRoot(nil, db, r1)
		defer tr.Close()
		require.NoError(tr.Insert(ctx, []byte(k), []byte(v)))
		_, h, err := tr.Commit(ctx, ns, 2)
		require.NoError(err)
		return node.Root{Namespace: ns, Version: 2, Type: node.RootTypeState, Hash: h}
	}
	rA := candidate("b", "A")
	rB := candidate("c", "B")
	require.NoError(db.Finalize([]node.Root{rB}))

	if db.HasRoot(rA) {
		// still reported present: then it must read back exactly its own contents
		ta := mkvs.NewWithRoot(nil, db, rA)
		defer ta.Close()
		v, err := ta.Get(ctx, []byte("b"))
		require.NoError(err, "discarded root is reported present but cannot be read")
		require.Equal([]byte("A"), v, "discarded root is reported present but returns other contents")
		v, err = ta.Get(ctx, []byte("c"))
		require.NoError(err)
		require.Nil(v, "discarded root is reported present but returns a key of the finalized root")
	}
	roots, err := db.GetRootsForVersion(2)
	require.NoError(err)
	require.Len(roots, 1, "a discarded root is still listed for the finalized version")
}
