//go:build verif

package badger

// Demonstration of the repaired defect "an interrupted Prune of a version with a lone root can never be
// repeated" (hash-keyed back end; fix commit in known_findings.txt). Place this file in
// go/storage/mkvs/db/badger and run
//   go test -tags verif -count=1 -run TestDemoC07PruneInterruptedLoneRoot .
// Versions 1..3, each built from an empty tree (so no root has a derived root - the situation of every IO root).
// Prune(1) dies between its batch flush (which removes the lone root's nodes and root entry) and its metadata
// commit. Before the repair every later Prune(1) failed with "root not found", and Prune(2) with "not earliest".

import (
	"context"
	"testing"

	"github.com/stretchr/testify/require"

	"github.com/oasisprotocol/oasis-core/go/common"
	"github.com/oasisprotocol/oasis-core/go/storage/mkvs"
	"github.com/oasisprotocol/oasis-core/go/storage/mkvs/db/api"
	"github.com/oasisprotocol/oasis-core/go/storage/mkvs/node"
)

func TestDemoC07PruneInterruptedLoneRoot(t *testing.T) {
	require := require.New(t)
	ctx := context.Background()
	var ns common.Namespace
	cfg := &api.Config{DB: t.TempDir(), Namespace: ns, NoFsync: true, MaxCacheSize: 16 << 20}
	db, err := New(cfg)
	require.NoError(err)

	var roots []node.Root
	for v := uint64(1); v <= 3; v++ {
		tr := mkvs.New(nil, db, node.RootTypeState)
		require.NoError(tr.Insert(ctx, []byte{byte(v)}, []byte("x")))
		_, h, err := tr.Commit(ctx, ns, v)
		require.NoError(err)
		tr.Close()
		r := node.Root{Namespace: ns, Version: v, Type: node.RootTypeState, Hash: h}
		require.NoError(db.Finalize([]node.Root{r}))
		roots = append(roots, r)
	}

	// crash right before the second durable write of Prune (the metadata commit)
	api.VerifCrashReset()
	api.VerifCrashAt = 2
	func() {
		defer func() {
			r := recover()
			_, isCrash := r.(api.VerifCrash)
			require.True(isCrash, "expected the simulated crash")
		}()
		_ = db.Prune(1)
	}()
	api.VerifCrashAt = 0
	db.Close()

	db, err = New(cfg)
	require.NoError(err)
	defer db.Close()
	require.NoError(db.Prune(1), "the interrupted prune cannot be repeated")
	require.NoError(db.Prune(2))
	require.EqualValues(3, db.GetEarliestVersion())
	t3 := mkvs.NewWithRoot(nil, db, roots[2])
	defer t3.Close()
	v, err := t3.Get(ctx, []byte{3})
	require.NoError(err)
	require.Equal([]byte("x"), v)
}
