package registry

import (
	"testing"

	requirePkg "github.com/stretchr/testify/require"

	beacon "github.com/oasisprotocol/oasis-core/go/beacon/api"
	"github.com/oasisprotocol/oasis-core/go/common/cbor"
	"github.com/oasisprotocol/oasis-core/go/common/crypto/signature"
	memorySigner "github.com/oasisprotocol/oasis-core/go/common/crypto/signature/signers/memory"
	"github.com/oasisprotocol/oasis-core/go/common/entity"
	"github.com/oasisprotocol/oasis-core/go/common/node"
	"github.com/oasisprotocol/oasis-core/go/common/quantity"
	"github.com/oasisprotocol/oasis-core/go/common/version"
	abciAPI "github.com/oasisprotocol/oasis-core/go/consensus/cometbft/api"
	beaconState "github.com/oasisprotocol/oasis-core/go/consensus/cometbft/apps/beacon/state"
	consensusState "github.com/oasisprotocol/oasis-core/go/consensus/cometbft/apps/consensus/state"
	registryState "github.com/oasisprotocol/oasis-core/go/consensus/cometbft/apps/registry/state"
	stakingState "github.com/oasisprotocol/oasis-core/go/consensus/cometbft/apps/staking/state"
	"github.com/oasisprotocol/oasis-core/go/consensus/genesis"
	registry "github.com/oasisprotocol/oasis-core/go/registry/api"
	staking "github.com/oasisprotocol/oasis-core/go/staking/api"
)

// TestDemoC17IdentityKeyAsSubKey demonstrates that the registry's registerNode handler accepts a
// node descriptor (node N) whose TLS public key is the *identity* key of another, already
// registered node (node X), as long as X's identity key co-signs the descriptor.
//
// The sub-key uniqueness check in VerifyRegisterNodeArgs only consults the sub-key map
// (NodeBySubKey), which never contains identity keys, so X's identity key ends up in the
// sub-key map pointing to N.
//
// The test PASSES iff the behaviour is exactly:
//   - step 3 (N's registration) is accepted,
//   - state.Node(X.ID) still returns X,
//   - state.NodeBySubKey(X.ID) returns N,
//   - state.Node(N.ID) returns N with TLS.PubKey == X.ID.
func TestDemoC17IdentityKeyAsSubKey(t *testing.T) {
	require := requirePkg.New(t)

	const seedPrefix = "consensus/cometbft/apps/registry: demo C17: "

	cfg := abciAPI.MockApplicationStateConfig{}
	appState := abciAPI.NewMockApplicationState(&cfg)
	ctx := appState.NewContext(abciAPI.ContextEndBlock)
	defer ctx.Close()

	var md abciAPI.NoopMessageDispatcher
	app := Application{appState, &md}
	state := registryState.NewMutableState(ctx.State())
	stakeState := stakingState.NewMutableState(ctx.State())
	beaconState := beaconState.NewMutableState(ctx.State())
	consensusState := consensusState.NewMutableState(ctx.State())

	// Staking consensus parameters (zero thresholds, like the existing TestRegisterNode).
	err := stakeState.SetConsensusParameters(ctx, &staking.ConsensusParameters{
		Thresholds: map[staking.ThresholdKind]quantity.Quantity{
			staking.KindEntity:            *quantity.NewFromUint64(0),
			staking.KindNodeValidator:     *quantity.NewFromUint64(0),
			staking.KindNodeCompute:       *quantity.NewFromUint64(0),
			staking.KindNodeKeyManager:    *quantity.NewFromUint64(0),
			staking.KindRuntimeCompute:    *quantity.NewFromUint64(0),
			staking.KindRuntimeKeyManager: *quantity.NewFromUint64(0),
			staking.KindKeyManagerChurp:   *quantity.NewFromUint64(0),
		},
	})
	require.NoError(err, "staking.SetConsensusParameters")

	// Registry consensus parameters.
	err = state.SetConsensusParameters(ctx, &registry.ConsensusParameters{
		MaxNodeExpiration: 5,
	})
	require.NoError(err, "registry.SetConsensusParameters")

	// Beacon consensus parameters.
	err = beaconState.SetConsensusParameters(ctx, &beacon.ConsensusParameters{
		Backend: beacon.BackendInsecure,
	})
	require.NoError(err, "beacon.SetConsensusParameters")

	// Consensus parameters.
	err = consensusState.SetConsensusParameters(ctx, &genesis.Parameters{
		FeatureVersion: &version.Version{Major: 100},
	})
	require.NoError(err, "consensus.SetConsensusParameters")

	// Signers.
	entitySigner := memorySigner.NewTestSigner(seedPrefix + "entity signer")

	xNodeSigner := memorySigner.NewTestSigner(seedPrefix + "X node signer")
	xConsensusSigner := memorySigner.NewTestSigner(seedPrefix + "X consensus signer")
	xP2PSigner := memorySigner.NewTestSigner(seedPrefix + "X p2p signer")
	xTLSSigner := memorySigner.NewTestSigner(seedPrefix + "X tls signer")
	xVRFSigner := memorySigner.NewTestSigner(seedPrefix + "X vrf signer").(signature.VRFSigner)

	nNodeSigner := memorySigner.NewTestSigner(seedPrefix + "N node signer")
	nConsensusSigner := memorySigner.NewTestSigner(seedPrefix + "N consensus signer")
	nP2PSigner := memorySigner.NewTestSigner(seedPrefix + "N p2p signer")
	nVRFSigner := memorySigner.NewTestSigner(seedPrefix + "N vrf signer").(signature.VRFSigner)

	xID := xNodeSigner.Public()
	nID := nNodeSigner.Public()
	require.NotEqual(xID, nID, "sanity: X and N identity keys must differ")

	// Step 1: entity E with node list {X, N}.
	ent := entity.Entity{
		Versioned: cbor.NewVersioned(entity.LatestDescriptorVersion),
		ID:        entitySigner.Public(),
		Nodes:     []signature.PublicKey{xID, nID},
	}
	sigEnt, err := entity.SignEntity(entitySigner, registry.RegisterEntitySignatureContext, &ent)
	require.NoError(err, "SignEntity")
	err = state.SetEntity(ctx, &ent, sigEnt)
	require.NoError(err, "SetEntity")
	t.Logf("step 1: entity E=%s registered with nodes X=%s N=%s", ent.ID, xID, nID)

	var addressX, addressN node.Address
	require.NoError(addressX.UnmarshalText([]byte("8.8.8.8:1234")), "addressX.UnmarshalText")
	require.NoError(addressN.UnmarshalText([]byte("8.8.4.4:1234")), "addressN.UnmarshalText")

	// Step 2: node X registers normally.
	nodeX := node.Node{
		Versioned:  cbor.NewVersioned(node.LatestNodeDescriptorVersion),
		ID:         xID,
		EntityID:   ent.ID,
		Expiration: 3,
		P2P: node.P2PInfo{
			ID:        xP2PSigner.Public(),
			Addresses: []node.Address{addressX},
		},
		Consensus: node.ConsensusInfo{
			ID: xConsensusSigner.Public(),
			Addresses: []node.ConsensusAddress{
				{ID: xConsensusSigner.Public(), Address: addressX},
			},
		},
		TLS: node.TLSInfo{
			PubKey: xTLSSigner.Public(),
		},
		VRF: node.VRFInfo{
			ID: xVRFSigner.Public(),
		},
	}
	nodeX.AddRoles(node.RoleValidator)

	sigNodeX, err := node.MultiSignNode(
		[]signature.Signer{xNodeSigner, xP2PSigner, xConsensusSigner, xTLSSigner, xVRFSigner},
		registry.RegisterNodeSignatureContext,
		&nodeX,
	)
	require.NoError(err, "MultiSignNode(X)")

	txCtxX := appState.NewContext(abciAPI.ContextDeliverTx)
	defer txCtxX.Close()
	txCtxX.SetTxSigner(xID)
	err = app.registerNode(txCtxX, state, sigNodeX)
	require.NoError(err, "step 2: registration of node X should succeed")
	t.Logf("step 2: node X registered (TLS=%s)", nodeX.TLS.PubKey)

	regX, err := state.Node(ctx, xID)
	require.NoError(err, "step 2: state.Node(X.ID)")
	require.EqualValues(&nodeX, regX, "step 2: registered descriptor of X should be correct")

	// Before step 3, X's identity key must not be in the sub-key map.
	_, err = state.NodeBySubKey(ctx, xID)
	require.Equal(registry.ErrNoSuchNode, err, "before step 3: X's identity key should not be in the sub-key map")

	// Step 3: node N registers with TLS.PubKey == X's *identity* key, co-signed by X's identity signer.
	nodeN := node.Node{
		Versioned:  cbor.NewVersioned(node.LatestNodeDescriptorVersion),
		ID:         nID,
		EntityID:   ent.ID,
		Expiration: 3,
		P2P: node.P2PInfo{
			ID:        nP2PSigner.Public(),
			Addresses: []node.Address{addressN},
		},
		Consensus: node.ConsensusInfo{
			ID: nConsensusSigner.Public(),
			Addresses: []node.ConsensusAddress{
				{ID: nConsensusSigner.Public(), Address: addressN},
			},
		},
		TLS: node.TLSInfo{
			PubKey: xID, // <-- X's identity key used as N's TLS sub-key.
		},
		VRF: node.VRFInfo{
			ID: nVRFSigner.Public(),
		},
	}
	nodeN.AddRoles(node.RoleValidator)

	sigNodeN, err := node.MultiSignNode(
		[]signature.Signer{nNodeSigner, nP2PSigner, nConsensusSigner, xNodeSigner, nVRFSigner},
		registry.RegisterNodeSignatureContext,
		&nodeN,
	)
	require.NoError(err, "MultiSignNode(N)")

	txCtxN := appState.NewContext(abciAPI.ContextDeliverTx)
	defer txCtxN.Close()
	txCtxN.SetTxSigner(nID)
	err = app.registerNode(txCtxN, state, sigNodeN)
	t.Logf("step 3: registerNode(N with TLS.PubKey = X.ID) -> err = %v (accepted = %v)", err, err == nil)
	require.NoError(err, "step 3: EXPECTATION DIFFERS: registration of N with TLS.PubKey == X's identity key was REJECTED")

	// Post-conditions.

	// (a) state.Node(X.ID) still returns X.
	gotX, err := state.Node(ctx, xID)
	require.NoError(err, "post: state.Node(X.ID) should still succeed")
	t.Logf("post (a): state.Node(X.ID).ID = %s", gotX.ID)
	require.True(gotX.ID.Equal(xID), "post: state.Node(X.ID) should return a node with ID X, got %s", gotX.ID)
	require.EqualValues(&nodeX, gotX, "post: state.Node(X.ID) should still return X's descriptor unchanged")

	// (b) state.NodeBySubKey(X.ID) returns N.
	gotBySub, err := state.NodeBySubKey(ctx, xID)
	require.NoError(err, "post: EXPECTATION DIFFERS: state.NodeBySubKey(X.ID) failed, X's identity key is not in the sub-key map")
	t.Logf("post (b): state.NodeBySubKey(X.ID).ID = %s (N = %s, X = %s)", gotBySub.ID, nID, xID)
	require.True(gotBySub.ID.Equal(nID), "post: EXPECTATION DIFFERS: state.NodeBySubKey(X.ID) should return N (%s), got %s", nID, gotBySub.ID)
	require.EqualValues(&nodeN, gotBySub, "post: state.NodeBySubKey(X.ID) should return N's descriptor")

	// (c) state.Node(N.ID) returns N with TLS.PubKey == X.ID.
	gotN, err := state.Node(ctx, nID)
	require.NoError(err, "post: state.Node(N.ID) should succeed")
	t.Logf("post (c): state.Node(N.ID).ID = %s, TLS.PubKey = %s", gotN.ID, gotN.TLS.PubKey)
	require.True(gotN.ID.Equal(nID), "post: state.Node(N.ID) should return a node with ID N, got %s", gotN.ID)
	require.True(gotN.TLS.PubKey.Equal(xID), "post: EXPECTATION DIFFERS: N.TLS.PubKey should equal X.ID (%s), got %s", xID, gotN.TLS.PubKey)
	require.EqualValues(&nodeN, gotN, "post: state.Node(N.ID) should return N's descriptor")

	// Informational: X's real sub-keys still resolve to X.
	for _, sk := range []struct {
		descr string
		key   signature.PublicKey
	}{
		{"consensus", nodeX.Consensus.ID},
		{"P2P", nodeX.P2P.ID},
		{"TLS", nodeX.TLS.PubKey},
		{"VRF", nodeX.VRF.ID},
	} {
		owner, lerr := state.NodeBySubKey(ctx, sk.key)
		switch lerr {
		case nil:
			t.Logf("info: NodeBySubKey(X.%s) -> node %s", sk.descr, owner.ID)
		default:
			t.Logf("info: NodeBySubKey(X.%s) -> err %v", sk.descr, lerr)
		}
	}

	t.Logf("RESULT: behaviour as expected: X's identity key was accepted as N's TLS sub-key and now maps to N in the sub-key index")
}
