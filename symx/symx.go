// Package verifsymx is the harness-side API of the /verif symbolic engine.
//
// Under the engine every function below is intercepted by name: inputs become
// solver variables, Assume/Assert become solver queries. Compiled natively
// (this file), inputs are read from the JSON witness file named by
// $VERIF_WITNESS, Assume(false) skips and Assert(false) fails: that is the
// counterexample replay path and the translator-validation path.
package verifsymx

import (
	"encoding/json"
	"fmt"
	"math/big"
	"os"
	"strconv"
	"sync"
)

var (
	once    sync.Once
	witness map[string]string
	// Covers and Observed are the labels/values recorded by the last Execute.
	Covers   []string
	Observed []string
)

func load() {
	once.Do(func() {
		witness = map[string]string{}
		if p := os.Getenv("VERIF_WITNESS"); p != "" {
			b, err := os.ReadFile(p)
			if err != nil {
				panic(err)
			}
			var doc struct {
				Witness map[string]string `json:"witness"`
			}
			if err := json.Unmarshal(b, &doc); err != nil {
				panic(err)
			}
			witness = doc.Witness
		}
	})
}

func get(name string) *big.Int {
	load()
	s, ok := witness[name]
	if !ok {
		return new(big.Int)
	}
	v, ok := new(big.Int).SetString(s, 10)
	if !ok {
		panic("bad witness value for " + name)
	}
	return v
}

// Symbolic reports whether the harness runs under the symbolic engine.
func Symbolic() bool { return false }

func Bool(name string) bool     { return get(name).Sign() != 0 }
func Uint8(name string) uint8   { return uint8(get(name).Uint64()) }
func Byte(name string) byte     { return uint8(get(name).Uint64()) }
func Uint16(name string) uint16 { return uint16(get(name).Uint64()) }
func Uint32(name string) uint32 { return uint32(get(name).Uint64()) }
func Int32(name string) int32   { return int32(uint32(get(name).Uint64())) }
func Uint64(name string) uint64 { return get(name).Uint64() }
func Uint(name string) uint     { return uint(get(name).Uint64()) }
func Int64(name string) int64   { return int64(get(name).Uint64()) }
func Int(name string) int       { return int(get(name).Uint64()) }

// Bytes returns n input bytes named name[0..n-1].
func Bytes(name string, n int) []byte {
	r := make([]byte, n)
	for i := range r {
		r[i] = uint8(get(name + "[" + strconv.Itoa(i) + "]").Uint64())
	}
	return r
}

// Choose returns an input in [0,n); the engine explores every feasible value.
func Choose(name string, n int) int {
	if n <= 1 {
		return 0
	}
	return int(get(name).Uint64())
}

// BigInt returns an unbounded integer input.
func BigInt(name string) *big.Int { return get(name) }

// Nat returns an unbounded non-negative integer input.
func Nat(name string) *big.Int { return get(name) }

// Cfg returns the harness-instance parameter name (or def).
func Cfg(name string, def int) int {
	load()
	if s, ok := witness["cfg:"+name]; ok {
		v, _ := strconv.Atoi(s)
		return v
	}
	return def
}

type assumeFailed struct{}
type assertFailed struct{ msg string }

func Assume(b bool) {
	if !b {
		panic(assumeFailed{})
	}
}

func Assert(b bool, msg string) {
	if !b {
		panic(assertFailed{msg})
	}
}

func Unreachable(msg string) { panic(assertFailed{"unreachable: " + msg}) }

func Cover(label string) { Covers = append(Covers, label) }

// Observe records a value for engine-vs-native comparison.
func Observe(name string, v any) { Observed = append(Observed, fmt.Sprintf("%s=%v", name, v)) }

// HonestSignature (engine only) returns a fresh signature by public key pk over
// the prepared message msg and records (pk, msg, sig) as honestly signed; the
// engine's model of ed25519 verification accepts exactly the recorded triples.
// Natively harnesses sign with a real key instead (guarded by Symbolic()).
func HonestSignature(pk, msg []byte) []byte { panic("verifsymx.HonestSignature is engine-only") }

// MapOrderBegin/End bracket a region in which the engine explores every
// iteration order of every ranged-over map (no-op natively).
func MapOrderBegin() {}
func MapOrderEnd()   {}

// RNGRecord / RNGReplay / RNGOff (engine only; no-ops natively): the engine models
// Shuffle/Perm as arbitrary permutations; RNGRecord starts recording the draws,
// RNGReplay makes the following code see the same draws again ("same entropy").
func RNGRecord() {}
func RNGReplay() {}
func RNGOff()    {}

// Attempt is the number of the current native repetition of the harness (0 under the engine and in the
// first native run). Harnesses whose outcome depends on something the engine explores exhaustively but a
// native run fixes (the permutation the real DRBG derives from the entropy) use it to vary that input, so
// that a counterexample can be reproduced natively by repeating the run (unit option native_repeat).
func Attempt() int { return attempt }

// SetAttempt is called by the generated replay test between repetitions.
func SetAttempt(i int) { attempt = i }

var attempt int

// N builds an input name from a prefix and an index.
func N(prefix string, i int) string { return prefix + strconv.Itoa(i) }

// Execute runs a harness natively and classifies the outcome:
// "ok", "assume", "assert: <msg>" or "panic: <value>".
func Execute(f func()) (outcome string) {
	Covers, Observed = nil, nil
	defer func() {
		if r := recover(); r != nil {
			switch r := r.(type) {
			case assumeFailed:
				outcome = "assume"
			case assertFailed:
				outcome = "assert: " + r.msg
			default:
				outcome = fmt.Sprintf("panic: %v", r)
			}
		}
	}()
	f()
	return "ok"
}
